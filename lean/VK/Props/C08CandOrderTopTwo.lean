/-
  VK.Props.C08CandOrderTopTwo — C08, "listing the candidates in a different order", TopTwo: the finalists' stage and
  the runoff are both single-round counts, so the re-listing theorem for Plurality applies twice - once every group
  and record of the first stage is known to mention declared candidates only.
-/
import VK.Props.C08CandOrder
import VK.Props.C09Single
namespace VK

/-- every candidate a round state mentions -/
def stateCands (s : RoundState) : List Cand :=
  s.remaining.flatten ++ s.elected.flatten ++ s.eliminated.flatten ++
    s.tiebreaks.flatMap (fun t => t.1 ++ t.2.flatten) ++ s.scores.map (·.1)

theorem reR_restrict (c' : List Cand) (P : Cand → Bool) (r : Ranking) (h : ∀ x ∈ r.flatten, P x = true) :
    reR (c'.filter P) r = reR c' r := by
  unfold reR
  apply List.map_congr_left; intro g hg
  exact reG_restrict c' g P (fun x hx => h x (List.mem_flatten.mpr ⟨g, hg, hx⟩))

theorem reRS_restrict (c' : List Cand) (P : Cand → Bool) (s : RoundState) (h : ∀ x ∈ stateCands s, P x = true) :
    reRS (c'.filter P) s = reRS c' s := by
  have h1 : ∀ x ∈ s.remaining.flatten, P x = true := fun x hx => h x (by simp [stateCands, hx])
  have h2 : ∀ x ∈ s.elected.flatten, P x = true := fun x hx => h x (by simp [stateCands, hx])
  have h3 : ∀ x ∈ s.eliminated.flatten, P x = true := fun x hx => h x (by simp [stateCands, hx])
  have h4 : ∀ t ∈ s.tiebreaks, (∀ x ∈ t.1, P x = true) ∧ (∀ x ∈ t.2.flatten, P x = true) := by
    intro t ht
    constructor
    · intro x hx; exact h x (by simp only [stateCands, List.mem_append, List.mem_flatMap]; exact Or.inl (Or.inr ⟨t, ht, Or.inl hx⟩))
    · intro x hx; exact h x (by simp only [stateCands, List.mem_append, List.mem_flatMap]; exact Or.inl (Or.inr ⟨t, ht, Or.inr hx⟩))
  have h5 : ∀ x ∈ s.scores.map (·.1), P x = true := fun x hx => h x (by simp only [stateCands, List.mem_append]; exact Or.inr hx)
  unfold reRS
  rw [reR_restrict c' P _ h1, reR_restrict c' P _ h2, reR_restrict c' P _ h3, reSc_restrict c' P _ h5]
  congr 1
  apply List.map_congr_left; intro t ht
  unfold reTb
  rw [reG_restrict c' t.1 P (h4 t ht).1, reR_restrict c' P _ (h4 t ht).2]

/-- what a finished single-round count mentions: declared candidates only -/
theorem topMRun_mentions (p : Profile) (m : Nat) (tb : Option TB) (pri : List Cand)
    (score : Profile → Outcome (List (Cand × Rat)))
    (hkeys : ∀ q sc, score q = .ok sc → sc.map (·.1) = q.cands) (hN : p.cands.Nodup)
    (st : States) (h : topMRun p m tb pri score = .ok st) :
    ∀ s ∈ st, ∀ x ∈ stateCands s, x ∈ p.cands := by
  unfold topMRun at h
  cases hsc0 : score p with
  | ok sc0 =>
    rw [hsc0] at h
    simp only [Outcome.bind_ok] at h
    have hk0 : sc0.map (·.1) = p.cands := hkeys p sc0 hsc0
    have hrem0 : (initialState p.cands (some sc0)).remaining = scoreToRanking sc0 := rfl
    rw [hrem0] at h
    cases hel : electFromRanking pri (scoreToRanking sc0) m (some p) tb with
    | ok r =>
      rw [hel] at h
      simp only [Outcome.bind_ok] at h
      cases hsc1 : score (removeCand r.elected.flatten p) with
      | ok sc1 =>
        rw [hsc1] at h
        simp only [Outcome.bind_ok, Outcome.pure_eq, Outcome.ok.injEq] at h
        subst h
        have hperm0 : (scoreToRanking sc0).flatten.Perm p.cands := by
          rw [← hk0]; exact scoreToRanking_perm sc0
        have hnd : ∀ g ∈ scoreToRanking sc0, g.Nodup :=
          scoreToRanking_groups_nodup sc0 (by rw [hk0]; exact hN)
        have hsubp : ∀ q, some p = some q → q.cands.Nodup ∧ ∀ g ∈ scoreToRanking sc0, ∀ c ∈ g, c ∈ q.cands := by
          intro q hq
          injection hq with hq; subst hq
          exact ⟨hN, fun g hg c hc => hperm0.subset (List.mem_flatten.mpr ⟨g, hg, hc⟩)⟩
        have hcount := electFromRanking_count pri (scoreToRanking sc0) m (some p) tb r hnd hsubp hel
        have hk1 : sc1.map (·.1) = p.cands.filter (fun c => !r.elected.flatten.contains c) := hkeys _ sc1 hsc1
        have hER : ∀ x, x ∈ r.elected.flatten ∨ x ∈ r.remaining.flatten → x ∈ p.cands := by
          intro x hx
          apply hperm0.subset
          apply hcount.2.subset
          rcases hx with h | h
          · exact List.mem_append_left _ h
          · exact List.mem_append_right _ h
        -- the tiebreak record
        have htb : ∀ t, r.tiebreak = some t → ∀ x ∈ t.1 ++ t.2.flatten, x ∈ p.cands := by
          intro t ht x hx
          unfold electFromRanking at hel
          split at hel
          · cases hel
          · split at hel
            · cases hel
            · obtain ⟨pre, post, hsplit, hcase⟩ := electLoop_spec pri (some p) tb m [] _ r hnd hsubp hel
              rcases hcase with ⟨hnone, _⟩ | ⟨g, post', broken, t', hpost, hsome, _, _, _, _, hbp, _, _, _⟩
              · rw [hnone] at ht; cases ht
              · rw [hsome] at ht
                injection ht with ht; subst ht
                have hg : g ∈ scoreToRanking sc0 := by rw [hsplit, hpost]; simp
                have hgin : ∀ y ∈ g, y ∈ p.cands := fun y hy => hperm0.subset (List.mem_flatten.mpr ⟨g, hg, hy⟩)
                rcases List.mem_append.mp hx with h1 | h1
                · exact hgin x h1
                · exact hgin x (hbp.subset h1)
        intro s hs x hx
        simp only [List.mem_cons, List.mem_nil_iff, or_false] at hs
        rcases hs with rfl | rfl
        · -- round 0
          simp only [stateCands, initialState, List.flatten_nil, List.append_nil, List.flatMap_nil, List.mem_append] at hx
          rcases hx with hx | hx
          · exact hperm0.subset (by simpa using hx)
          · rw [hk0] at hx; exact hx
        · simp only [stateCands, List.flatten_nil, List.append_nil, List.mem_append] at hx
          rcases hx with ((hx | hx) | hx) | hx
          · exact hER x (Or.inr hx)
          · exact hER x (Or.inl hx)
          · cases htbr : r.tiebreak with
            | none => rw [htbr] at hx; simp at hx
            | some t =>
              rw [htbr] at hx
              simp only [List.flatMap_cons, List.flatMap_nil, List.append_nil] at hx
              exact htb t htbr x hx
          · rw [hk1] at hx; exact (List.mem_filter.mp hx).1
      | raised e => rw [hsc1] at h; simp at h
      | oracleMismatch => rw [hsc1] at h; simp at h
      | outOfFuel => rw [hsc1] at h; simp at h
    | raised e => rw [hel] at h; simp at h
    | oracleMismatch => rw [hel] at h; simp at h
    | outOfFuel => rw [hel] at h; simp at h
  | raised e => rw [hsc0] at h; simp at h
  | oracleMismatch => rw [hsc0] at h; simp at h
  | outOfFuel => rw [hsc0] at h; simp at h

theorem pluralityRun_mentions (p : Profile) (m : Nat) (tb : Option TB) (pri : List Cand) (hN : p.cands.Nodup)
    (st : States) (h : pluralityRun p m tb pri = .ok st) : ∀ s ∈ st, ∀ x ∈ stateCands s, x ∈ p.cands := by
  unfold pluralityRun at h
  split at h
  · cases h
  · exact topMRun_mentions p m tb pri firstPlaceVotes (fun q sc hq => scoreFromRankings_keys q _ sc hq) hN st h

def reStageC (c' : List Cand) (x : RoundState × RoundState × Profile) : RoundState × RoundState × Profile :=
  (reRS c' x.1, reRS c' x.2.1, withCands x.2.2 (c'.filter (fun c => !x.2.1.eliminated.flatten.contains c)))

theorem finalistStage_re (p : Profile) (c' : List Cand) (hperm : c'.Perm p.cands) (hN : p.cands.Nodup)
    (k : Nat) (tb : Option TB) (pri : List Cand) :
    finalistStage (withCands p c') k tb pri = (finalistStage p k tb pri).map (reStageC c') := by
  have hsub : SubOf c' p.cands := fun x hx => hperm.symm.subset hx
  unfold finalistStage
  rw [firstPlaceVotes_re p c' hperm, C08_plurality_cand_order p c' hperm hN]
  cases hsc0 : firstPlaceVotes p with
  | ok sc0 =>
    simp only [Outcome.map_ok, Outcome.bind_ok]
    have hk0 : sc0.map (·.1) = p.cands := scoreFromRankings_keys p _ sc0 hsc0
    have hst0 : initialState (withCands p c').cands (some (reSc c' sc0)) = reRS c' (initialState p.cands (some sc0)) := by
      simp only [initialState, reRS, scoreToRanking_re c' sc0 (by rw [hk0]; exact hN) (by rw [hk0]; exact hsub), reR,
        List.map_nil]
    cases hpl : pluralityRun p k tb pri with
    | ok pl =>
      simp only [Outcome.map_ok, Outcome.bind_ok, reStates]
      have hment := pluralityRun_mentions p k tb pri hN pl hpl
      match pl, hment with
      | [], _ => rfl
      | [_], _ => rfl
      | _ :: _ :: _ :: _, _ => rfl
      | [s0, s1], hment =>
        simp only [List.map_cons, List.map_nil]
        have hs1 : ∀ x ∈ stateCands s1, x ∈ p.cands := hment s1 (by simp)
        have hremsub : ∀ g ∈ s1.remaining, SubOf c' g := by
          intro g hg x hx
          exact hsub x (hs1 x (by simp only [stateCands, List.mem_append]; exact Or.inl (Or.inl (Or.inl (Or.inl (List.mem_flatten.mpr ⟨g, hg, hx⟩))))))
        have hrc := removeCand_re p c' s1.remaining.flatten (reRS c' s1).remaining.flatten
          (flatten_reR_mem c' s1.remaining hremsub) true false
        rw [hrc]
        have hperm2 : (c'.filter (fun c => !s1.remaining.flatten.contains c)).Perm
            (removeCand s1.remaining.flatten p).cands := hperm.filter _
        rw [firstPlaceVotes_re _ _ hperm2]
        cases hsc1 : firstPlaceVotes (removeCand s1.remaining.flatten p) with
        | ok sc1 =>
          simp only [Outcome.map_ok, Outcome.bind_ok, Outcome.pure_eq, reStageC]
          have hk1 : sc1.map (·.1) = p.cands.filter (fun c => !s1.remaining.flatten.contains c) :=
            scoreFromRankings_keys _ _ sc1 hsc1
          rw [reSc_restrict c' _ sc1 (by rw [hk1]; intro x hx; exact (List.mem_filter.mp hx).2), hst0]
          simp only [reRS, reR, List.map_nil]
        | raised e => rfl
        | oracleMismatch => rfl
        | outOfFuel => rfl
    | raised e => rfl
    | oracleMismatch => rfl
    | outOfFuel => rfl
  | raised e => rfl
  | oracleMismatch => rfl
  | outOfFuel => rfl

/-- **C08 (order of listing, TopTwo).** -/
theorem C08_toptwo_cand_order (p : Profile) (c' : List Cand) (hperm : c'.Perm p.cands) (hN : p.cands.Nodup)
    (tb : Option TB) (pri : Nat → List Cand) :
    topTwoRun (withCands p c') tb pri = (topTwoRun p tb pri).map (reStates c') := by
  unfold topTwoRun
  have h1 : rankingValid (withCands p c') = rankingValid p := rfl
  rw [h1]
  split
  · rfl
  · rw [finalistStage_re p c' hperm hN]
    cases hfs : finalistStage p 2 tb (pri 1) with
    | ok x =>
      obtain ⟨st0, st1, p1⟩ := x
      simp only [Outcome.map_ok, Outcome.bind_ok, reStageC]
      -- the finalists' profile: its candidates are the declared ones minus the eliminated
      have hp1 : p1.cands = p.cands.filter (fun c => !st1.eliminated.flatten.contains c) := by
        unfold finalistStage at hfs
        cases h0 : firstPlaceVotes p with
        | ok sc0 =>
          rw [h0] at hfs
          simp only [Outcome.bind_ok] at hfs
          cases h1 : pluralityRun p 2 tb (pri 1) with
          | ok pl =>
            rw [h1] at hfs
            simp only [Outcome.bind_ok] at hfs
            match pl, hfs with
            | [s0, s1], hfs =>
              simp only [] at hfs
              cases h2 : firstPlaceVotes (removeCand s1.remaining.flatten p) with
              | ok sc1 =>
                rw [h2] at hfs
                simp only [Outcome.bind_ok, Outcome.pure_eq, Outcome.ok.injEq, Prod.mk.injEq] at hfs
                obtain ⟨_, e1, e2⟩ := hfs
                rw [← e1, ← e2]; rfl
              | raised e => rw [h2] at hfs; simp at hfs
              | oracleMismatch => rw [h2] at hfs; simp at hfs
              | outOfFuel => rw [h2] at hfs; simp at hfs
          | raised e => rw [h1] at hfs; simp at hfs
          | oracleMismatch => rw [h1] at hfs; simp at hfs
          | outOfFuel => rw [h1] at hfs; simp at hfs
        | raised e => rw [h0] at hfs; simp at hfs
        | oracleMismatch => rw [h0] at hfs; simp at hfs
        | outOfFuel => rw [h0] at hfs; simp at hfs
      have hperm2 : (c'.filter (fun c => !st1.eliminated.flatten.contains c)).Perm p1.cands := by
        rw [hp1]; exact hperm.filter _
      have hN2 : p1.cands.Nodup := by rw [hp1]; exact hN.filter _
      rw [C08_plurality_cand_order p1 _ hperm2 hN2]
      cases hpl : pluralityRun p1 1 tb (pri 2) with
      | ok pl =>
        simp only [Outcome.map_ok, Outcome.bind_ok, reStates]
        have hment := pluralityRun_mentions p1 1 tb (pri 2) hN2 pl hpl
        match pl, hment with
        | [], _ => rfl
        | [_], _ => rfl
        | _ :: _ :: _ :: _, _ => rfl
        | [t0, s], hment =>
          simp only [List.map_cons, List.map_nil, Outcome.pure_eq, Outcome.map_ok]
          have hs : ∀ x ∈ stateCands s, (fun c => !st1.eliminated.flatten.contains c) x = true := by
            intro x hx
            have := hment s (by simp) x hx
            rw [hp1] at this
            exact (List.mem_filter.mp this).2
          rw [reRS_restrict c' _ s hs]
          rfl
      | raised e => rfl
      | oracleMismatch => rfl
      | outOfFuel => rfl
    | raised e => rfl
    | oracleMismatch => rfl
    | outOfFuel => rfl

end VK
