/-
  VK.Props.KernelsSTV — the STV kernels regenerated from /repo's current source
  (VK.Model.Generated.STV, written by tools/extract_kernels.py on every check) equal the definitions of the
  hand-written model that the theorems of C02, C03 and C07 are about. A change of one of these expressions or
  comparisons in the source makes the corresponding proof fail at `lake build`.
-/
import VK.Model.Generated.STV
import VK.Model.STV
import Mathlib.Algebra.Order.Field.Rat
import Mathlib.Tactic.Linarith
import Mathlib.Tactic.Ring
import Mathlib.Tactic.FieldSimp

namespace VK

/-- the source's Droop threshold is the model's -/
theorem kernel_threshold_droop (m : Nat) (N : Rat) :
    Generated.thresholdDroop m N = threshold .droop m N := by
  unfold Generated.thresholdDroop threshold
  first
    | rfl
    | (congr 1; ring)

/-- the source's Hare threshold is the model's -/
theorem kernel_threshold_hare (m : Nat) (N : Rat) :
    Generated.thresholdHare m N = threshold .hare m N := by
  unfold Generated.thresholdHare threshold
  first
    | rfl
    | (congr 1; ring)

/-- the source's transfer value is the factor the model's fractional transfer applies
(`applyTransfer`, `.fractional`: `b.2 * ((t - q) / t)`) -/
theorem kernel_transfer_value (t : Rat) (q : Int) (ht : t ≠ 0) : Generated.transferValue t q = (t - q) / t := by
  unfold Generated.transferValue
  first
    | rfl
    | ring
    | (field_simp)
    | (field_simp; ring)

/-- the model's fractional transfer really uses that factor -/
theorem kernel_transfer_value_used (cfg : STVCfg) (hop : List Cand) (q : Int) (sample : List (List Cand × Nat))
    (bs : List PBallot) (w : Cand) (hf : cfg.transfer = .fractional) (ht : tally bs hop w ≠ 0) :
    applyTransfer cfg hop q sample bs w =
      .ok (bs.map (fun b => if topOf hop b.1 = some w then (b.1, b.2 * Generated.transferValue (tally bs hop w) q) else b)) := by
  unfold applyTransfer
  simp only [hf, ht, if_false, kernel_transfer_value _ _ ht]


/-- the source's quota test of the simultaneous elect step (`>= self.threshold`) is the model's -/
theorem kernel_quota_simul (score : Rat) (q : Int) :
    Generated.quotaReachedSimul score q = decide ((q : Rat) ≤ score) := by
  unfold Generated.quotaReachedSimul
  first
    | rfl
    | simp only [ge_iff_le]

/-- the model's simultaneous election takes the candidates of the tally order while that test holds
(a group is judged by its first member; the groups of a tally order are non-empty) -/
theorem kernel_quota_simul_used (cfg : STVCfg) (q : Int) (ω : STVOracle) (rnd : Nat) (S : CState) (prev : RoundState)
    (hs : cfg.simultaneous = true) :
    electChoice cfg q ω rnd S prev =
      pure (prev.remaining.takeWhile (fun g =>
        (g.head?.map (fun c => Generated.quotaReachedSimul (lookupScore prev.scores c) q)).getD false), []) := by
  unfold electChoice
  simp only [hs, if_true]
  congr 3
  funext g
  cases g with
  | nil => rfl
  | cons c rest => simp [kernel_quota_simul]

/-- the source's test "somebody reached the threshold this round" is the model's -/
theorem kernel_quota_step (score : Rat) (q : Int) :
    Generated.quotaReachedStep score q = decide ((q : Rat) ≤ score) := by
  unfold Generated.quotaReachedStep
  first
    | rfl
    | simp only [ge_iff_le]

/-- the size `random_transfer` hands to `random.sample` is the number of votes the model's random
transfer keeps in the winner's pile (`applyTransfer`, `.random`: `k = t.floor - q`) -/
theorem kernel_random_sample_size (t : Rat) (q : Int) :
    Generated.randomSampleSize t q = ((t.floor - q : Int) : Rat) := by
  unfold Generated.randomSampleSize
  first
    | rfl
    | push_cast; ring

end VK
