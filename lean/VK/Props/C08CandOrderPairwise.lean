/-
  VK.Props.C08CandOrderPairwise — C08, "listing the candidates in a different order", pairwise layer: reach sets,
  dominating tiers, Condorcet winner, DominatingSets and CondoBorda.
-/
import VK.Props.C08CandOrder
import VK.Model.Pairwise
namespace VK

theorem any_reG (c' g : List Cand) (hs : SubOf c' g) (P : Cand → Bool) : (reG c' g).any P = g.any P := by
  rw [Bool.eq_iff_iff]; simp only [List.any_eq_true]
  exact ⟨fun ⟨x, hx, hp⟩ => ⟨x, (mem_reG_sub c' g hs x).mp hx, hp⟩,
         fun ⟨x, hx, hp⟩ => ⟨x, (mem_reG_sub c' g hs x).mpr hx, hp⟩⟩

theorem reG_all (c' cands : List Cand) (hperm : c'.Perm cands) : reG c' cands = c' := by
  unfold reG
  apply List.filter_eq_self.mpr
  intro x hx; simpa using hperm.subset hx

theorem expand_re (c' cands : List Cand) (hperm : c'.Perm cands) (E : Cand → Cand → Bool) (seen : List Cand)
    (hs : SubOf c' seen) : expand c' E (reG c' seen) = reG c' (expand cands E seen) := by
  unfold expand
  rw [reG_filter, reG_all c' cands hperm]
  apply List.filter_congr; intro b _
  rw [contains_reG c' seen hs, any_reG c' seen hs]

theorem expand_sub (c' cands : List Cand) (hperm : c'.Perm cands) (E : Cand → Cand → Bool) (seen : List Cand) :
    SubOf c' (expand cands E seen) := fun _ hx => hperm.symm.subset (List.mem_filter.mp hx).1

theorem iter_expand_re (c' cands : List Cand) (hperm : c'.Perm cands) (E : Cand → Cand → Bool) (n : Nat)
    (seen : List Cand) (hs : SubOf c' seen) :
    iter (expand c' E) n (reG c' seen) = reG c' (iter (expand cands E) n seen) := by
  induction n generalizing seen with
  | zero => rfl
  | succ k ih =>
    simp only [iter]
    rw [expand_re c' cands hperm E seen hs]
    exact ih _ (expand_sub c' cands hperm E seen)

theorem iter_expand_sublist (cands : List Cand) (E : Cand → Cand → Bool) (n : Nat) (seen : List Cand)
    (hs : seen.Sublist cands) : (iter (expand cands E) n seen).Sublist cands := by
  induction n generalizing seen with
  | zero => exact hs
  | succ k ih => simp only [iter]; exact ih _ List.filter_sublist

theorem reach_re (c' cands : List Cand) (hperm : c'.Perm cands) (E : Cand → Cand → Bool) (a : Cand) :
    reach c' E a = reG c' (reach cands E a) := by
  unfold reach
  rw [hperm.length_eq]
  have h0 : c'.filter (fun x => decide (x = a)) = reG c' (cands.filter (fun x => decide (x = a))) := by
    rw [reG_filter, reG_all c' cands hperm]
  rw [h0]
  exact iter_expand_re c' cands hperm E _ _ (fun x hx => hperm.symm.subset (List.mem_filter.mp hx).1)

theorem reachCount_re (c' cands : List Cand) (hperm : c'.Perm cands) (hN : cands.Nodup) (E : Cand → Cand → Bool)
    (a : Cand) : reachCount c' E a = reachCount cands E a := by
  unfold reachCount
  rw [reach_re c' cands hperm E a]
  have hsl : (reach cands E a).Sublist cands := iter_expand_sublist cands E _ _ List.filter_sublist
  exact reG_length c' _ (hperm.nodup_iff.mpr hN) (hN.sublist hsl) (fun x hx => hperm.symm.subset (hsl.subset hx))

theorem tiersOf_re (c' cands : List Cand) (hperm : c'.Perm cands) (hN : cands.Nodup) (E : Cand → Cand → Bool) :
    tiersOf c' E = reR c' (tiersOf cands E) := by
  unfold tiersOf
  have hk : ((cands.map (fun c => (c, ((reachCount cands E c : Nat) : Rat)))).map (·.1)) = cands := by
    rw [List.map_map]; simp [Function.comp_def]
  rw [← scoreToRanking_re c' _ (by rw [hk]; exact hN) (by rw [hk]; exact fun x hx => hperm.symm.subset hx),
    reSc_of_map c' cands hperm]
  congr 1
  apply List.map_congr_left; intro c _
  rw [reachCount_re c' cands hperm hN]

theorem tiers_good (c' cands : List Cand) (hperm : c'.Perm cands) (hN : cands.Nodup) (E : Cand → Cand → Bool) :
    ∀ g ∈ tiersOf cands E, GoodGroup c' g := by
  unfold tiersOf
  have hk : ((cands.map (fun c => (c, ((reachCount cands E c : Nat) : Rat)))).map (·.1)) = cands := by
    rw [List.map_map]; simp [Function.comp_def]
  exact scoreToRanking_groups_good c' _ (by rw [hk]; exact hN) (by rw [hk]; exact fun x hx => hperm.symm.subset hx) true

/-- **C08 (order of listing, dominating tiers).** -/
theorem C08_tiers_cand_order (p : Profile) (c' : List Cand) (hperm : c'.Perm p.cands) (hN : p.cands.Nodup) :
    dominatingTiers (withCands p c') = reR c' (dominatingTiers p) := by
  unfold dominatingTiers graphCands
  have hb : (withCands p c').ballots = p.ballots := rfl
  have he : edge (withCands p c') = edge p := rfl
  rw [hb, he]
  split
  · rfl
  · exact tiersOf_re c' p.cands hperm hN (edge p)

theorem dominatingTiers_good (p : Profile) (c' : List Cand) (hperm : c'.Perm p.cands) (hN : p.cands.Nodup) :
    ∀ g ∈ dominatingTiers p, GoodGroup c' g := by
  unfold dominatingTiers graphCands
  split
  · intro g hg; simp [tiersOf, scoreToRanking, distinctDesc] at hg
  · exact tiers_good c' p.cands hperm hN (edge p)

theorem C08_condorcet_cand_order (p : Profile) (c' : List Cand) (hperm : c'.Perm p.cands) (hN : p.cands.Nodup) :
    condorcetWinner (withCands p c') = condorcetWinner p := by
  have hN' : c'.Nodup := hperm.nodup_iff.mpr hN
  unfold condorcetWinner
  rw [C08_tiers_cand_order p c' hperm hN]
  have hgood := dominatingTiers_good p c' hperm hN
  cases hd : dominatingTiers p with
  | nil => rfl
  | cons t rest =>
    have ht : GoodGroup c' t := hgood t (by rw [hd]; exact List.mem_cons_self)
    have hc : reR c' (t :: rest) = reG c' t :: reR c' rest := rfl
    rw [hc]
    match t, ht with
    | [], _ => simp [reG_nil]
    | [c], ht => rw [reG_singleton c' hN' c (ht.2 c (List.mem_singleton_self c))]
    | a :: b :: l, ht =>
      have hl := reG_length c' (a :: b :: l) hN' ht.1 ht.2
      match hr : reG c' (a :: b :: l), hl with
      | x :: y :: l', _ => rfl

/-- **C08 (order of listing, DominatingSets).** -/
theorem C08_domsets_cand_order (p : Profile) (c' : List Cand) (hperm : c'.Perm p.cands) (hN : p.cands.Nodup) :
    dominatingSetsRun (withCands p c') = (dominatingSetsRun p).map (reStates c') := by
  unfold dominatingSetsRun
  have h1 : rankingValid (withCands p c') = rankingValid p := rfl
  rw [h1, C08_tiers_cand_order p c' hperm hN]
  split
  · rfl
  · cases dominatingTiers p with
    | nil => rfl
    | cons t rest =>
      simp only [reR, List.map_cons, Outcome.map_ok, reStates, List.map_nil]
      have hs1 : ({ round := 1, remaining := List.map (reG c') rest, elected := [reG c' t] } : RoundState) =
          reRS c' { round := 1, remaining := rest, elected := [t] } := by
        simp only [reRS, reR, reSc, reG_nil, List.map_nil, List.map_cons]
      rw [hs1]
      congr 2
      have hc : (withCands p c').cands = c' := rfl
      simp only [initialState, hc, reRS, reR, reSc, reG_nil, List.map_nil]
      have he : c'.isEmpty = p.cands.isEmpty := by
        rw [Bool.eq_iff_iff, List.isEmpty_iff, List.isEmpty_iff]
        exact ⟨fun e => by rw [e] at hperm; exact hperm.symm.eq_nil, fun e => by rw [e] at hperm; exact hperm.eq_nil⟩
      rw [he]
      split
      · rfl
      · simp only [List.map_cons, List.map_nil, reG_all c' p.cands hperm]

/-- **C08 (order of listing, CondoBorda).** -/
theorem C08_condoborda_cand_order (p : Profile) (c' : List Cand) (hperm : c'.Perm p.cands) (hN : p.cands.Nodup)
    (m : Nat) (pri : List Cand) :
    condoBordaRun (withCands p c') m pri = (condoBordaRun p m pri).map (reStates c') := by
  have hN' : c'.Nodup := hperm.nodup_iff.mpr hN
  have hsub : SubOf c' p.cands := fun x hx => hperm.symm.subset hx
  unfold condoBordaRun
  have h1 : rankingValid (withCands p c') = rankingValid p := rfl
  rw [h1]
  split
  · rfl
  · rw [bordaScores_re p c' hperm]
    cases hsc0 : bordaScores p with
    | ok sc0 =>
      simp only [Outcome.map_ok, Outcome.bind_ok]
      have hk0 : sc0.map (·.1) = p.cands := scoreFromRankings_keys p _ sc0 hsc0
      have hk0n : (sc0.map (·.1)).Nodup := by rw [hk0]; exact hN
      have hk0s : SubOf c' (sc0.map (·.1)) := by rw [hk0]; exact hsub
      have hst0 : initialState (withCands p c').cands (some (reSc c' sc0)) = reRS c' (initialState p.cands (some sc0)) := by
        simp only [initialState, reRS, scoreToRanking_re c' sc0 hk0n hk0s, reR, List.map_nil]
      have hgood := dominatingTiers_good p c' hperm hN
      rw [hst0, C08_tiers_cand_order p c' hperm hN,
        electFromRanking_re c' hN' pri p (withCands p c') (some .borda) (bordaScores_re p c' hperm)
          (firstPlaceVotes_re p c' hperm) hN hsub m _ hgood]
      cases hel : electFromRanking pri (dominatingTiers p) m (some p) (some .borda) with
      | ok r =>
        simp only [Outcome.map_ok, Outcome.bind_ok]
        have hcount := electFromRanking_count pri (dominatingTiers p) m (some p) (some .borda) r
          (fun g hg => (hgood g hg).1)
          (fun q hq => by
            injection hq with hq; subst hq
            exact ⟨hN, fun g hg c hc => hperm.subset ((hgood g hg).2 c hc)⟩) hel
        have hesub : ∀ g ∈ r.elected, SubOf c' g := by
          intro g hg x hx
          have h1 : x ∈ r.elected.flatten := List.mem_flatten.mpr ⟨g, hg, hx⟩
          have h2 : x ∈ (dominatingTiers p).flatten := hcount.2.subset (List.mem_append_left _ h1)
          obtain ⟨g', hg', hx'⟩ := List.mem_flatten.mp h2
          exact (hgood g' hg').2 x hx'
        rw [removeCand_re p c' r.elected.flatten (reER c' r).elected.flatten
          (flatten_reR_mem c' r.elected hesub) true false]
        have hperm2 : (c'.filter (fun c => !r.elected.flatten.contains c)).Perm
            (removeCand r.elected.flatten p).cands := hperm.filter _
        rw [bordaScores_re _ _ hperm2]
        cases hsc1 : bordaScores (removeCand r.elected.flatten p) with
        | ok sc1 =>
          simp only [Outcome.map_ok, Outcome.bind_ok, Outcome.pure_eq, reStates, List.map_cons, List.map_nil]
          have hk1 : sc1.map (·.1) = p.cands.filter (fun c => !r.elected.flatten.contains c) :=
            scoreFromRankings_keys _ _ sc1 hsc1
          rw [reSc_restrict c' _ sc1 (by rw [hk1]; intro x hx; exact (List.mem_filter.mp hx).2)]
          congr 2
          simp only [reRS, reER, reR, List.map_nil]
          congr 1
          cases r.tiebreak <;> rfl
        | raised e => rfl
        | oracleMismatch => rfl
        | outOfFuel => rfl
      | raised e => rfl
      | oracleMismatch => rfl
      | outOfFuel => rfl
    | raised e => rfl
    | oracleMismatch => rfl
    | outOfFuel => rfl

end VK
