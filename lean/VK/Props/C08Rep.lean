/-
  VK.Props.C08Rep — C08, ballot representation for the single-round rules: two profiles over the same candidates
  whose ballot lists represent the same weighted contents (`RepEq`: a reordering, a splitting of a ballot into
  identical ballots whose positive weights add up, a merging of identical ballots) give exactly the same rounds under
  Plurality / SNTV, Borda and the score-ballot classes, or the same exception.
-/
import VK.Lemmas.RepEq
import VK.Lemmas.RescoreLin
import VK.Lemmas.Rename
import VK.Model.Rules
namespace VK

/-- a scoring function that looks at the ballots only through the representation-independent data -/
def ScoreRep (score : Profile → Outcome (List (Cand × Rat))) : Prop :=
  ∀ (cands : List Cand) (a b : List Ballot), RepEq a b →
    score { ballots := a, cands := cands } = score { ballots := b, cands := cands }

theorem scoreRep_rankings (v : List Rat) : ScoreRep (fun q => scoreFromRankings q v) :=
  fun cands a b h => scoreFromRankings_rep cands a b h v

theorem scoreRep_fpv : ScoreRep firstPlaceVotes :=
  fun cands a b h => scoreFromRankings_rep cands a b h _

theorem scoreRep_borda : ScoreRep bordaScores :=
  fun cands a b h => scoreFromRankings_rep cands a b h _

theorem scoreRep_ballotScores : ScoreRep scoreFromBallotScores :=
  fun cands a b h => scoreFromBallotScores_rep cands a b h

theorem tiebreakSet_rep (pri s : List Cand) (cands : List Cand) (a b : List Ballot) (h : RepEq a b) (tb : TB) :
    tiebreakSet pri s (some { ballots := a, cands := cands }) tb =
      tiebreakSet pri s (some { ballots := b, cands := cands }) tb := by
  unfold tiebreakSet
  cases tb with
  | random => rfl
  | borda => simp only [scoreRep_borda cands a b h, scoreRep_fpv cands a b h]
  | firstPlace => simp only [scoreRep_borda cands a b h, scoreRep_fpv cands a b h]

theorem topMRun_rep (cands : List Cand) (a b : List Ballot) (h : RepEq a b) (m : Nat) (tb : Option TB)
    (pri : List Cand) (score : Profile → Outcome (List (Cand × Rat))) (hs : ScoreRep score) :
    topMRun { ballots := a, cands := cands } m tb pri score = topMRun { ballots := b, cands := cands } m tb pri score := by
  unfold topMRun
  rw [hs cands a b h]
  cases score { ballots := b, cands := cands } with
  | ok sc0 =>
    simp only [Outcome.bind_ok]
    have hel : ∀ R, electFromRanking pri R m (some { ballots := a, cands := cands }) tb =
        electFromRanking pri R m (some { ballots := b, cands := cands }) tb := by
      intro R
      unfold electFromRanking
      split
      · rfl
      · split
        · rfl
        · exact electLoop_tb_congr pri _ _ tb (fun s t => tiebreakSet_rep pri s cands a b h t) m [] R
    rw [hel]
    cases electFromRanking pri (initialState cands (some sc0)).remaining m (some { ballots := b, cands := cands }) tb with
    | ok r =>
      simp only [Outcome.bind_ok]
      have hrc : score (removeCand r.elected.flatten { ballots := a, cands := cands }) =
          score (removeCand r.elected.flatten { ballots := b, cands := cands }) := by
        unfold removeCand
        exact hs _ _ _ (h.removeCand r.elected.flatten)
      rw [hrc]
    | raised e => rfl
    | oracleMismatch => rfl
    | outOfFuel => rfl
  | raised e => rfl
  | oracleMismatch => rfl
  | outOfFuel => rfl

theorem rankingValid_rep (cands : List Cand) (a b : List Ballot) (h : RepEq a b) :
    rankingValid { ballots := a, cands := cands } = rankingValid { ballots := b, cands := cands } := by
  unfold rankingValid
  exact all_of_same h.same (fun k => !k.1.isEmpty)

/-- **C08 (ballot representation, Plurality / SNTV).** -/
theorem C08_plurality_rep (cands : List Cand) (a b : List Ballot) (h : RepEq a b) (m : Nat) (tb : Option TB)
    (pri : List Cand) :
    pluralityRun { ballots := a, cands := cands } m tb pri = pluralityRun { ballots := b, cands := cands } m tb pri := by
  unfold pluralityRun
  rw [rankingValid_rep cands a b h]
  split
  · rfl
  · exact topMRun_rep cands a b h m tb pri _ scoreRep_fpv

/-- **C08 (ballot representation, Borda with any vector).** -/
theorem C08_borda_rep (cands : List Cand) (a b : List Ballot) (h : RepEq a b) (m : Nat) (v : Option (List Rat))
    (tb : Option TB) (pri : List Cand) :
    bordaRun { ballots := a, cands := cands } m v tb pri = bordaRun { ballots := b, cands := cands } m v tb pri := by
  unfold bordaRun
  rw [rankingValid_rep cands a b h]
  have key : ∀ vec : List Rat,
      (if !validVector vec then Outcome.raised .valueError
       else if !rankingValid { ballots := b, cands := cands } then .raised .typeError
       else topMRun { ballots := a, cands := cands } m tb pri (fun q => scoreFromRankings q vec)) =
      (if !validVector vec then Outcome.raised .valueError
       else if !rankingValid { ballots := b, cands := cands } then .raised .typeError
       else topMRun { ballots := b, cands := cands } m tb pri (fun q => scoreFromRankings q vec)) := by
    intro vec
    rw [topMRun_rep cands a b h m tb pri _ (scoreRep_rankings vec)]
  exact key _

/-- **C08 (ballot representation, the score-ballot classes).** -/
theorem C08_rating_rep (cands : List Cand) (a b : List Ballot) (h : RepEq a b) (m : Int) (L : Rat) (k : Option Rat)
    (tb : Option TB) (pri : List Cand) :
    generalRatingRun { ballots := a, cands := cands } m L k tb pri =
      generalRatingRun { ballots := b, cands := cands } m L k tb pri := by
  unfold generalRatingRun
  have hb : a.all (ratingBallotOk L (effectiveBudget k)) = b.all (ratingBallotOk L (effectiveBudget k)) := by
    have := all_of_same h.same (fun kk => ratingBallotOk L (effectiveBudget k) ⟨kk.1, 1, kk.2⟩)
    have e : ∀ x : Ballot, ratingBallotOk L (effectiveBudget k) ⟨x.content.1, 1, x.content.2⟩ =
        ratingBallotOk L (effectiveBudget k) x := fun x => rfl
    simp only [e] at this
    exact this
  simp only [hb]
  split
  · rfl
  · split
    · rfl
    · exact topMRun_rep cands a b h m.toNat tb pri _ scoreRep_ballotScores

theorem C08_scorerule_rep (rule : ScoreRule) (cands : List Cand) (a b : List Ballot) (h : RepEq a b) (m : Int)
    (L : Rat) (k : Option Rat) (tb : Option TB) (pri : List Cand) :
    scoreRuleRun rule { ballots := a, cands := cands } m L k tb pri =
      scoreRuleRun rule { ballots := b, cands := cands } m L k tb pri := by
  cases rule <;> simp only [scoreRuleRun, C08_rating_rep cands a b h]

/-- the three transformations of the property statement, for Plurality (the other rules alike through `RepEq`) -/
theorem C08_plurality_ballot_order (cands : List Cand) (a b : List Ballot) (hp : a.Perm b) (hpos : PosW a)
    (m : Nat) (tb : Option TB) (pri : List Cand) :
    pluralityRun { ballots := a, cands := cands } m tb pri = pluralityRun { ballots := b, cands := cands } m tb pri :=
  C08_plurality_rep cands a b (RepEq.of_perm hp hpos) m tb pri

theorem C08_plurality_ballot_split (cands : List Cand) (r : Ranking) (s : Scores) (w1 w2 : Rat) (h1 : 0 < w1)
    (h2 : 0 < w2) (rest : List Ballot) (hp : PosW rest) (m : Nat) (tb : Option TB) (pri : List Cand) :
    pluralityRun { ballots := ⟨r, w1, s⟩ :: ⟨r, w2, s⟩ :: rest, cands := cands } m tb pri =
      pluralityRun { ballots := ⟨r, w1 + w2, s⟩ :: rest, cands := cands } m tb pri :=
  C08_plurality_rep cands _ _ (RepEq.of_split r s w1 w2 h1 h2 rest hp) m tb pri

theorem C08_plurality_ballot_merge (cands : List Cand) (a : List Ballot) (hpos : PosW a) (m : Nat) (tb : Option TB)
    (pri : List Cand) :
    pluralityRun { ballots := a, cands := cands } m tb pri =
      pluralityRun { ballots := condense a, cands := cands } m tb pri :=
  C08_plurality_rep cands a _ (RepEq.of_condense a hpos) m tb pri

/-- non-vacuity: a reordered pair and a split pair of ballot lists meet `RepEq` -/
example : RepEq [⟨[[0], [1]], 2, []⟩, ⟨[[1]], 3, []⟩, ⟨[[0], [1]], 1, []⟩]
    [⟨[[0], [1]], 2, []⟩, ⟨[[0], [1]], 1, []⟩, ⟨[[1]], 3, []⟩] :=
  RepEq.of_perm (by decide) (by intro b hb; simp at hb; rcases hb with rfl | rfl | rfl <;> decide)

example : RepEq [⟨[[0], [1]], 2, []⟩, ⟨[[0], [1]], 1, []⟩, ⟨[[1]], 3, []⟩] [⟨[[0], [1]], 2 + 1, []⟩, ⟨[[1]], 3, []⟩] :=
  RepEq.of_split [[0], [1]] [] 2 1 (by decide) (by decide) [⟨[[1]], 3, []⟩]
    (by intro b hb; simp at hb; rw [hb]; decide)

end VK

namespace VK
/-! ### pairwise rules -/

theorem h2h_rep (cands : List Cand) (a b : List Ballot) (h : RepEq a b) (x y : Cand) :
    h2h { ballots := a, cands := cands } x y = h2h { ballots := b, cands := cands } x y :=
  h.lin (fun k => prefShareR k.1 x y)

theorem edge_rep (cands : List Cand) (a b : List Ballot) (h : RepEq a b) :
    edge { ballots := a, cands := cands } = edge { ballots := b, cands := cands } := by
  funext x y
  unfold edge margin
  rw [h2h_rep cands a b h, h2h_rep cands a b h]

theorem isEmpty_rep (a b : List Ballot) (h : RepEq a b) : a.isEmpty = b.isEmpty := by
  rw [Bool.eq_iff_iff, List.isEmpty_iff, List.isEmpty_iff]
  constructor
  · intro e
    cases hb : b with
    | nil => rfl
    | cons x rest =>
      obtain ⟨y, hy, _⟩ := (h.same x.content).mpr ⟨x, by rw [hb]; exact List.mem_cons_self, rfl⟩
      rw [e] at hy; cases hy
  · intro e
    cases ha : a with
    | nil => rfl
    | cons x rest =>
      obtain ⟨y, hy, _⟩ := (h.same x.content).mp ⟨x, by rw [ha]; exact List.mem_cons_self, rfl⟩
      rw [e] at hy; cases hy

/-- **C08 (ballot representation, dominating tiers).** -/
theorem C08_tiers_rep (cands : List Cand) (a b : List Ballot) (h : RepEq a b) :
    dominatingTiers { ballots := a, cands := cands } = dominatingTiers { ballots := b, cands := cands } := by
  unfold dominatingTiers graphCands
  simp only [isEmpty_rep a b h, edge_rep cands a b h]

/-- **C08 (ballot representation, DominatingSets).** -/
theorem C08_domsets_rep (cands : List Cand) (a b : List Ballot) (h : RepEq a b) :
    dominatingSetsRun { ballots := a, cands := cands } = dominatingSetsRun { ballots := b, cands := cands } := by
  unfold dominatingSetsRun
  rw [rankingValid_rep cands a b h, C08_tiers_rep cands a b h]

/-- **C08 (ballot representation, CondoBorda).** -/
theorem C08_condoborda_rep (cands : List Cand) (a b : List Ballot) (h : RepEq a b) (m : Nat) (pri : List Cand) :
    condoBordaRun { ballots := a, cands := cands } m pri = condoBordaRun { ballots := b, cands := cands } m pri := by
  unfold condoBordaRun
  rw [rankingValid_rep cands a b h, scoreRep_borda cands a b h, C08_tiers_rep cands a b h]
  split
  · rfl
  · cases bordaScores { ballots := b, cands := cands } with
    | ok sc0 =>
      simp only [Outcome.bind_ok]
      have hel : electFromRanking pri (dominatingTiers { ballots := b, cands := cands }) m
            (some { ballots := a, cands := cands }) (some .borda) =
          electFromRanking pri (dominatingTiers { ballots := b, cands := cands }) m
            (some { ballots := b, cands := cands }) (some .borda) := by
        unfold electFromRanking
        split
        · rfl
        · split
          · rfl
          · exact electLoop_tb_congr pri _ _ _ (fun s t => tiebreakSet_rep pri s cands a b h t) m [] _
      rw [hel]
      cases electFromRanking pri (dominatingTiers { ballots := b, cands := cands }) m
          (some { ballots := b, cands := cands }) (some .borda) with
      | ok r =>
        simp only [Outcome.bind_ok]
        have hrc : bordaScores (removeCand r.elected.flatten { ballots := a, cands := cands }) =
            bordaScores (removeCand r.elected.flatten { ballots := b, cands := cands }) := by
          unfold removeCand
          exact scoreRep_borda _ _ _ (h.removeCand r.elected.flatten)
        rw [hrc]
      | raised e => rfl
      | oracleMismatch => rfl
      | outOfFuel => rfl
    | raised e => rfl
    | oracleMismatch => rfl
    | outOfFuel => rfl

end VK

namespace VK
/-! ### TopTwo -/

theorem finalistStage_rep (cands : List Cand) (a b : List Ballot) (h : RepEq a b) (k : Nat) (tb : Option TB)
    (pri : List Cand) :
    (finalistStage { ballots := a, cands := cands } k tb pri).map (fun x => (x.1, x.2.1, x.2.2.cands)) =
      (finalistStage { ballots := b, cands := cands } k tb pri).map (fun x => (x.1, x.2.1, x.2.2.cands)) ∧
    ∀ x y, finalistStage { ballots := a, cands := cands } k tb pri = .ok x →
      finalistStage { ballots := b, cands := cands } k tb pri = .ok y →
      x.2.2.cands = y.2.2.cands ∧ RepEq x.2.2.ballots y.2.2.ballots := by
  unfold finalistStage
  rw [scoreRep_fpv cands a b h, C08_plurality_rep cands a b h]
  cases firstPlaceVotes { ballots := b, cands := cands } with
  | ok sc0 =>
    simp only [Outcome.bind_ok]
    cases pluralityRun { ballots := b, cands := cands } k tb pri with
    | ok pl =>
      simp only [Outcome.bind_ok]
      match pl with
      | [] => exact ⟨rfl, fun x y hx => by cases hx⟩
      | [_] => exact ⟨rfl, fun x y hx => by cases hx⟩
      | _ :: _ :: _ :: _ => exact ⟨rfl, fun x y hx => by cases hx⟩
      | [s0, s1] =>
        simp only []
        have hrc : firstPlaceVotes (removeCand s1.remaining.flatten { ballots := a, cands := cands }) =
            firstPlaceVotes (removeCand s1.remaining.flatten { ballots := b, cands := cands }) := by
          unfold removeCand
          exact scoreRep_fpv _ _ _ (h.removeCand s1.remaining.flatten)
        rw [hrc]
        cases firstPlaceVotes (removeCand s1.remaining.flatten { ballots := b, cands := cands }) with
        | ok sc1 =>
          simp only [Outcome.bind_ok, Outcome.pure_eq, Outcome.map_ok]
          refine ⟨rfl, fun x y hx hy => ?_⟩
          injection hx with hx; injection hy with hy
          subst hx; subst hy
          exact ⟨rfl, h.removeCand s1.remaining.flatten⟩
        | raised e => exact ⟨rfl, fun x y hx => by cases hx⟩
        | oracleMismatch => exact ⟨rfl, fun x y hx => by cases hx⟩
        | outOfFuel => exact ⟨rfl, fun x y hx => by cases hx⟩
    | raised e => exact ⟨rfl, fun x y hx => by cases hx⟩
    | oracleMismatch => exact ⟨rfl, fun x y hx => by cases hx⟩
    | outOfFuel => exact ⟨rfl, fun x y hx => by cases hx⟩
  | raised e => exact ⟨rfl, fun x y hx => by cases hx⟩
  | oracleMismatch => exact ⟨rfl, fun x y hx => by cases hx⟩
  | outOfFuel => exact ⟨rfl, fun x y hx => by cases hx⟩

/-- **C08 (ballot representation, TopTwo).** -/
theorem C08_toptwo_rep (cands : List Cand) (a b : List Ballot) (h : RepEq a b) (tb : Option TB) (pri : Nat → List Cand) :
    topTwoRun { ballots := a, cands := cands } tb pri = topTwoRun { ballots := b, cands := cands } tb pri := by
  unfold topTwoRun
  rw [rankingValid_rep cands a b h]
  split
  · rfl
  · have hfs := finalistStage_rep cands a b h 2 tb (pri 1)
    cases hA : finalistStage { ballots := a, cands := cands } 2 tb (pri 1) with
    | ok x =>
      cases hB : finalistStage { ballots := b, cands := cands } 2 tb (pri 1) with
      | ok y =>
        obtain ⟨xs0, xs1, xp⟩ := x
        obtain ⟨ys0, ys1, yp⟩ := y
        have h1 := hfs.1
        rw [hA, hB] at h1
        simp only [Outcome.map_ok, Outcome.ok.injEq, Prod.mk.injEq] at h1
        obtain ⟨e0, e1, _⟩ := h1
        obtain ⟨ec, hr⟩ := hfs.2 _ _ hA hB
        simp only [Outcome.bind_ok]
        have hp : pluralityRun xp 1 tb (pri 2) = pluralityRun yp 1 tb (pri 2) := by
          have hx : xp = { ballots := xp.ballots, cands := xp.cands } := rfl
          have hy : yp = { ballots := yp.ballots, cands := xp.cands } := by
            have : yp.cands = xp.cands := ec.symm
            cases yp; simp_all
          rw [hx, hy]
          exact C08_plurality_rep xp.cands xp.ballots yp.ballots hr 1 tb (pri 2)
        rw [hp, e0, e1]
      | raised e => have h1 := hfs.1; rw [hA, hB] at h1; cases h1
      | oracleMismatch => have h1 := hfs.1; rw [hA, hB] at h1; cases h1
      | outOfFuel => have h1 := hfs.1; rw [hA, hB] at h1; cases h1
    | raised e =>
      have h1 := hfs.1; rw [hA] at h1
      cases hB : finalistStage { ballots := b, cands := cands } 2 tb (pri 1) with
      | ok y => rw [hB] at h1; cases h1
      | raised e' => rw [hB] at h1; simp only [Outcome.map_raised] at h1; injection h1 with h1; subst h1; rfl
      | oracleMismatch => rw [hB] at h1; cases h1
      | outOfFuel => rw [hB] at h1; cases h1
    | oracleMismatch =>
      have h1 := hfs.1; rw [hA] at h1
      cases hB : finalistStage { ballots := b, cands := cands } 2 tb (pri 1) with
      | ok y => rw [hB] at h1; cases h1
      | raised e' => rw [hB] at h1; cases h1
      | oracleMismatch => rfl
      | outOfFuel => rw [hB] at h1; cases h1
    | outOfFuel =>
      have h1 := hfs.1; rw [hA] at h1
      cases hB : finalistStage { ballots := b, cands := cands } 2 tb (pri 1) with
      | ok y => rw [hB] at h1; cases h1
      | raised e' => rw [hB] at h1; cases h1
      | oracleMismatch => rw [hB] at h1; cases h1
      | outOfFuel => rfl

end VK
