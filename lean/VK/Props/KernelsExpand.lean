/-
  VK.Props.KernelsExpand — `expand_tied_ballot` divides the weight by k! once per tied group; dividing
  successively by the source's share is the model's single division by the product of the factorials
  (`tieDivisor`, C12's expansion theorems).
-/
import VK.Model.Generated.Expand
import VK.Model.Utils
import Mathlib.Algebra.Order.Field.Rat
import Mathlib.Tactic.Ring
import Mathlib.Tactic.FieldSimp

namespace VK

theorem gfact_eq (n : Nat) : Generated.gfact n = fact n := by
  induction n with
  | zero => rfl
  | succ n ih => simp [Generated.gfact, fact, ih]

theorem foldl_mul_assoc (l : List Nat) (a : Nat) : l.foldl (· * ·) a = a * l.foldl (· * ·) 1 := by
  induction l generalizing a with
  | nil => simp
  | cons x xs ih => simp only [List.foldl_cons]; rw [ih (a * x), ih (1 * x)]; ring

/-- applying the source's share once per position of the ranking gives the model's weight of one
linear order: `w / prod(k_i!)` -/
theorem kernel_expand_share (r : Ranking) (w : Rat) :
    r.foldl (fun acc s => Generated.expandShare acc s.length) w = w / (tieDivisor r : Rat) := by
  unfold tieDivisor
  induction r generalizing w with
  | nil => simp
  | cons s rest ih =>
    simp only [List.foldl_cons, List.map_cons]
    rw [ih]
    unfold Generated.expandShare
    rw [gfact_eq, foldl_mul_assoc _ (1 * fact s.length)]
    push_cast
    rw [div_div]
    ring_nf

end VK
