/-
  C16 — restricting a Plackett–Luce order to a slate is Plackett–Luce on that slate's supports
  (the marginalisation identity of successive sampling). This is the law behind CambridgeSampler's
  `[c for c in pl_ordering if c in slate]`: the order drawn on the combined interval, read on one
  slate, is distributed as a draw from that slate's own (renormalised) interval.
-/
import VK.Props.C16

namespace VK
open Gen Dist

/-- probability of an event -/
def evProb {α} (d : Dist α) (E : α → Bool) : Rat := rsum ((d.supp.filter (fun e => E e.1)).map (·.2))

theorem evProb_mk_append {α} (l₁ l₂ : List (α × Rat)) (E : α → Bool) :
    evProb ⟨l₁ ++ l₂⟩ E = evProb ⟨l₁⟩ E + evProb ⟨l₂⟩ E := by
  unfold evProb; simp

theorem evProb_scale {β} (l : List (β × Rat)) (c : Rat) (E : β → Bool) :
    evProb (α := β) ⟨l.map (fun bq => (bq.1, c * bq.2))⟩ E = c * evProb ⟨l⟩ E := by
  unfold evProb
  induction l with
  | nil => simp
  | cons e es ih =>
    simp only [List.map_cons, List.filter_cons] at ih ⊢
    by_cases h : E e.1 = true
    · simp only [h, if_true, List.map_cons, rsum_cons, ih]; ring
    · simp only [h, Bool.false_eq_true, if_false, ih]

theorem evProb_bind {α β} (d : Dist α) (f : α → Dist β) (E : β → Bool) :
    evProb (Dist.bind d f) E = rsum (d.supp.map (fun ap => ap.2 * evProb (f ap.1) E)) := by
  obtain ⟨l⟩ := d
  unfold Dist.bind
  induction l with
  | nil => simp [evProb]
  | cons e es ih =>
    simp only [List.flatMap_cons, List.map_cons, rsum_cons]
    rw [evProb_mk_append, ih, evProb_scale]

theorem evProb_bind_pure {α β} (d : Dist α) (g : α → β) (E : β → Bool) :
    evProb (Dist.bind d (fun r => Dist.pure (g r))) E = evProb d (fun a => E (g a)) := by
  rw [evProb_bind]
  obtain ⟨l⟩ := d
  unfold evProb Dist.pure
  induction l with
  | nil => simp
  | cons e es ih =>
    simp only [List.map_cons, rsum_cons, List.filter_cons] at ih ⊢
    rw [ih]
    by_cases h : E (g e.1) = true
    · simp [h]
    · simp [h]

theorem evProb_false {α} (d : Dist α) (E : α → Bool) (h : ∀ a, E a = false) : evProb d E = 0 := by
  unfold evProb
  have : d.supp.filter (fun e => E e.1) = [] := by
    rw [List.filter_eq_nil_iff]; intro a _; simp [h]
  rw [this]; rfl

theorem evProb_congr {α} (d : Dist α) (E F : α → Bool) (h : ∀ a, E a = F a) : evProb d E = evProb d F := by
  have : E = F := funext h
  rw [this]

/-! ### `dropCand` -/

theorem dropCand_sublist (c : Cand) (x : List (Cand × Rat)) : (dropCand c x).Sublist x := by
  induction x with
  | nil => exact List.Sublist.slnil
  | cons e es ih =>
    unfold dropCand
    split
    · exact List.sublist_cons_self _ _
    · exact List.Sublist.cons₂ _ ih

theorem dropCand_length (c : Cand) (x : List (Cand × Rat)) (h : c ∈ x.map (·.1)) :
    (dropCand c x).length + 1 = x.length := by
  induction x with
  | nil => simp at h
  | cons e es ih =>
    unfold dropCand
    by_cases he : e.1 = c
    · simp [he]
    · simp only [he, if_false, List.length_cons]
      have : c ∈ es.map (·.1) := by
        simp only [List.map_cons, List.mem_cons] at h
        rcases h with h | h
        · exact absurd h.symm he
        · exact h
      rw [ih this]

theorem filter_dropCand_of_not (S : Cand → Bool) (c : Cand) (x : List (Cand × Rat)) (h : S c = false) :
    (dropCand c x).filter (fun e => S e.1) = x.filter (fun e => S e.1) := by
  induction x with
  | nil => rfl
  | cons e es ih =>
    unfold dropCand
    by_cases he : e.1 = c
    · simp [he, h]
    · simp only [he, if_false, List.filter_cons, ih]

theorem filter_dropCand_of_mem (S : Cand → Bool) (c : Cand) (x : List (Cand × Rat)) (h : S c = true) :
    (dropCand c x).filter (fun e => S e.1) = dropCand c (x.filter (fun e => S e.1)) := by
  induction x with
  | nil => rfl
  | cons e es ih =>
    by_cases he : e.1 = c
    · have hs : S e.1 = true := he ▸ h
      simp [dropCand, he, hs, List.filter_cons, h]
    · by_cases hs : S e.1 = true
      · simp [dropCand, he, hs, List.filter_cons, ih]
      · simp [dropCand, he, hs, List.filter_cons, ih]

theorem prob_bind_pure_cons_nil (d : Dist (List Cand)) (c : Cand) :
    (Dist.bind d (fun r => Dist.pure (c :: r))).prob [] = 0 := by
  rw [prob_bind]
  obtain ⟨l⟩ := d
  simp only [prob_pure]
  induction l with
  | nil => simp
  | cons e es ih => simp [rsum_replicate]

theorem rsum_pos_of_pos (x : List (Cand × Rat)) (hne : x ≠ []) (hpos : ∀ e ∈ x, (0 : Rat) < e.2) :
    0 < rsum (x.map (·.2)) := by
  cases x with
  | nil => exact absurd rfl hne
  | cons e es =>
    simp only [List.map_cons, rsum_cons]
    have h1 := hpos e (by simp)
    have h2 : 0 ≤ rsum (es.map (·.2)) := rsum_nonneg _ (by
      intro y hy
      obtain ⟨e', he', rfl⟩ := List.mem_map.1 hy
      exact le_of_lt (hpos e' (by simp [he'])))
    linarith

/-- the term of a slate member `c` drawn first: the rest, read on the slate, must give `r` minus its head -/
theorem member_term (S : Cand → Bool) (c : Cand) (hc : S c = true) (d : Dist (List Cand)) (dS : Dist (List Cand))
    (ih : ∀ r', evProb d (fun o => decide (o.filter S = r')) = dS.prob r') (r : List Cand) :
    evProb d (fun o => decide ((c :: o).filter S = r)) = (Dist.bind dS (fun r' => Dist.pure (c :: r'))).prob r := by
  cases r with
  | nil =>
    rw [prob_bind_pure_cons_nil]
    exact evProb_false _ _ (fun o => by simp [List.filter_cons, hc])
  | cons c0 r' =>
    by_cases h0 : c = c0
    · subst h0
      rw [prob_bind_pure_cons, ← ih r']
      exact evProb_congr _ _ _ (fun o => by simp [List.filter_cons, hc])
    · rw [prob_bind_pure_cons_ne _ _ _ _ h0]
      exact evProb_false _ _ (fun o => by simp [List.filter_cons, hc, h0])

/-- **Restriction of Plackett–Luce is Plackett–Luce.** Draw a full order by successive sampling from
duplicate-free positive supports `x` and keep only the candidates of a slate `S`, in the drawn order:
the result `r` has exactly the probability successive sampling from the slate's own supports gives it. -/
theorem C16_pl_restriction (S : Cand → Bool) : ∀ (n : Nat) (x : List (Cand × Rat)), x.length = n →
    (x.map (·.1)).Nodup → (∀ e ∈ x, (0 : Rat) < e.2) → ∀ r : List Cand,
    evProb (plDist n x) (fun o => decide (o.filter S = r)) =
      (plDist (x.filter (fun e => S e.1)).length (x.filter (fun e => S e.1))).prob r := by
  intro n
  induction n with
  | zero =>
    intro x hx _ _ r
    have : x = [] := List.length_eq_zero_iff.1 hx
    subst this
    simp only [plDist, List.filter_nil, List.length_nil]
    rw [prob_pure]
    unfold evProb Dist.pure
    by_cases h : ([] : List Cand) = r
    · simp [h.symm]
    · simp [h]
  | succ n ih =>
    intro x hx hn hpos r
    have hne : x ≠ [] := by intro h; subst h; simp at hx
    have hT : 0 < rsum (x.map (·.2)) := rsum_pos_of_pos x hne hpos
    set T := rsum (x.map (·.2)) with hTdef
    set xS := x.filter (fun e => S e.1) with hxS
    set PS := (plDist xS.length xS).prob r with hPS
    let A : Cand × Rat → Rat := fun e =>
      (Dist.bind (plDist (xS.length - 1) (dropCand e.1 xS)) (fun r' => Dist.pure (e.1 :: r'))).prob r
    -- per-element terms
    have hterm : ∀ e ∈ x, e.2 / T * evProb (Dist.bind (plDist n (dropCand e.1 x)) (fun r' => Dist.pure (e.1 :: r')))
        (fun o => decide (o.filter S = r)) = if S e.1 = true then e.2 / T * A e else e.2 / T * PS := by
      intro e he
      rw [evProb_bind_pure]
      have hmem : e.1 ∈ x.map (·.1) := List.mem_map.2 ⟨e, he, rfl⟩
      have hlen : (dropCand e.1 x).length = n := by have := dropCand_length e.1 x hmem; omega
      have hsub := dropCand_sublist e.1 x
      have hn' : ((dropCand e.1 x).map (·.1)).Nodup := (hsub.map _).nodup hn
      have hpos' : ∀ e' ∈ dropCand e.1 x, (0 : Rat) < e'.2 := fun e' he' => hpos e' (hsub.subset he')
      have ih' := ih (dropCand e.1 x) hlen hn' hpos'
      by_cases hs : S e.1 = true
      · simp only [hs, if_true]
        congr 1
        have hfilt := filter_dropCand_of_mem S e.1 x hs
        have hmemS : e.1 ∈ xS.map (·.1) := List.mem_map.2 ⟨e, List.mem_filter.2 ⟨he, hs⟩, rfl⟩
        have hlenS : (dropCand e.1 xS).length = xS.length - 1 := by have := dropCand_length e.1 xS hmemS; omega
        refine member_term S e.1 hs _ _ ?_ r
        intro r'
        rw [ih' r', hfilt, hlenS]
      · have hs' : S e.1 = false := by simpa using hs
        simp only [hs, Bool.false_eq_true, if_false]
        congr 1
        have hfilt := filter_dropCand_of_not S e.1 x hs'
        rw [evProb_congr _ _ (fun o => decide (o.filter S = r)) (fun o => by simp [List.filter_cons, hs'])]
        rw [ih' r, hfilt]
    rw [plDist, evProb_bind]
    unfold Dist.weighted
    simp only [List.map_map, Function.comp_def]
    rw [List.map_congr_left hterm]
    rw [← rsum_filter_add_filter_not x (fun e => S e.1)]
    have h1 : ((x.filter (fun e => S e.1)).map (fun e => if S e.1 = true then e.2 / T * A e else e.2 / T * PS)) =
        xS.map (fun e => e.2 * A e * T⁻¹) := by
      apply List.map_congr_left
      intro e he
      have := (List.mem_filter.1 he).2
      simp only [this, if_true]
      field_simp
    have h2 : ((x.filter (fun e => !S e.1)).map (fun e => if S e.1 = true then e.2 / T * A e else e.2 / T * PS)) =
        (x.filter (fun e => !S e.1)).map (fun e => e.2 * (T⁻¹ * PS)) := by
      apply List.map_congr_left
      intro e he
      have := (List.mem_filter.1 he).2
      have hs : S e.1 = false := by simpa using this
      simp only [hs, Bool.false_eq_true, if_false]
      field_simp
    rw [h1, h2, rsum_map_mul_right, rsum_map_mul_right]
    have hsplit := rsum_filter_add_filter_not x (fun e => S e.1) (·.2)
    have hrest : rsum ((x.filter (fun e => !S e.1)).map (·.2)) = T - rsum (xS.map (·.2)) := by
      rw [hTdef, ← hsplit]; ring
    rw [hrest]
    by_cases hSe : xS = []
    · have hPS0 : rsum (xS.map (·.2)) = 0 := by rw [hSe]; rfl
      rw [hSe] at *
      simp only [List.map_nil, rsum_nil, zero_mul, zero_add, sub_zero]
      field_simp
    · have hTS : 0 < rsum (xS.map (·.2)) :=
        rsum_pos_of_pos xS hSe (fun e he => hpos e (List.mem_filter.1 he).1)
      have hlenS : xS.length = (xS.length - 1) + 1 := by
        have : 0 < xS.length := List.length_pos_iff.2 hSe
        omega
      have hPSexp : PS = rsum (xS.map (fun e => e.2 * A e)) * (rsum (xS.map (·.2)))⁻¹ := by
        rw [hPS, hlenS, plDist, prob_bind]
        unfold Dist.weighted
        simp only [List.map_map, Function.comp_def, Nat.add_sub_cancel]
        rw [← rsum_map_mul_right]
        apply congrArg
        apply List.map_congr_left
        intro e _
        simp only [A]
        field_simp
      rw [hPSexp]
      field_simp
      ring

/-- the statement left open in `VK.Props.C16` holds -/
theorem C16_PLRestrictionConsistent : PLRestrictionConsistent := by
  intro x slate r hn hpos
  have := C16_pl_restriction (fun c => slate.contains c) x.length x rfl hn hpos r
  unfold evProb at this
  exact this

-- a concrete instance: supports 1/2, 1/4, 1/4; dropping candidate 1 leaves the order [2, 0] with
-- probability (1/4)/(3/4) = 1/3, computed on the full three-candidate law
example : evProb (plDist 3 [(0, 1/2), (1, 1/4), (2, 1/4)]) (fun o => decide (o.filter (· != 1) = [2, 0])) = 1/3 := by
  decide +kernel

end VK
