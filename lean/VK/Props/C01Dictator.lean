/-
  C01 for the dictator rules, round by round: whenever RandomDictator or BoostedRandomDictator finishes,
  at EVERY recorded round the candidates remaining after that round and the candidates elected up to it
  list each candidate exactly once (nobody is ever eliminated), for every oracle value.
-/
import VK.Props.C01
import VK.Props.C10
import VK.Props.C12
import VK.Lemmas.Rescore

namespace VK

/-- ballots that only mention declared candidates, each position without repeats -/
def CastOK (p : Profile) : Prop :=
  ∀ b ∈ p.ballots, (∀ c ∈ b.ranking.flatten, c ∈ p.cands) ∧ ∀ s ∈ b.ranking, s.Nodup

theorem removeCand_castOK (w : Cand) (p : Profile) (h : CastOK p) : CastOK (removeCand [w] p) := by
  intro b hb
  unfold removeCand removeCandBallots at hb
  simp only [if_true] at hb
  obtain ⟨b0, hb0, hr, _⟩ := mem_condense_ranking _ b hb
  have hb0' : b0 ∈ p.ballots.map (scrubBallot [w]) := by
    unfold scrubBallots at hb0
    simp only [Bool.false_eq_true, if_false] at hb0
    exact (List.mem_filter.1 hb0).1
  obtain ⟨b00, hb00, rfl⟩ := List.mem_map.1 hb0'
  obtain ⟨hc, hn⟩ := h b00 hb00
  rw [← hr]
  unfold scrubBallot
  simp only
  split
  · exact ⟨by simp, by simp⟩
  · refine ⟨?_, ?_⟩
    · intro c hcm
      rw [C12_order] at hcm
      obtain ⟨h1, h2⟩ := List.mem_filter.1 hcm
      simp only [removeCand]
      exact List.mem_filter.2 ⟨hc c h1, h2⟩
    · intro s hs
      obtain ⟨_, s0, hs0, rfl⟩ := scrubRanking_positions [w] b00.ranking s hs
      exact (hn s0 hs0).filter _

theorem dictatorPick_mem (p : Profile) (pick : Ranking) (pri : List Cand) (w : Cand) (t : List (List Cand × Ranking))
    (hp : CastOK p) (h : dictatorPick p pick pri = .ok (w, t)) : w ∈ p.cands := by
  unfold dictatorPick at h
  split at h; · cases h
  split at h; · cases h
  rename_i hany
  simp only [Bool.not_eq_true', Bool.not_eq_false'] at hany
  have hany' : p.ballots.any (fun b => b.ranking = pick && decide (0 < b.weight)) = true := by simpa using hany
  obtain ⟨b, hb, hbp⟩ := List.any_eq_true.1 hany'
  simp only [Bool.and_eq_true, decide_eq_true_eq] at hbp
  obtain ⟨hc, hn⟩ := hp b hb
  cases pick with
  | nil => cases h
  | cons first rest =>
    have hfirst : first ∈ b.ranking := by rw [hbp.1]; simp
    have hsub : ∀ c ∈ first, c ∈ p.cands := fun c hcf => hc c (List.mem_flatten.2 ⟨first, hfirst, hcf⟩)
    simp only at h
    split at h
    · cases ht : tiebreakSet pri first none .random with
      | ok tr =>
        simp only [ht, bind, Outcome.bind] at h
        have hspec := C10_resolution_is_strict_order pri first none .random tr (hn first hfirst) (by intro q hq; cases hq) ht
        split at h
        · rename_i c _ _
          injection h with h
          injection h with h1 _
          subst h1
          apply hsub
          apply hspec.1.mem_iff.1
          simp
        · cases h
      | raised e => simp [ht, bind, Outcome.bind] at h
      | oracleMismatch => simp [ht, bind, Outcome.bind] at h
      | outOfFuel => simp [ht, bind, Outcome.bind] at h
    · split at h
      · rename_i c
        injection h with h
        injection h with h1 _
        subst h1
        exact hsub _ (by simp)
      · cases h

/-- what the dictator loops maintain -/
structure RdInv (cands : List Cand) (p : Profile) (acc : List RoundState) : Prop where
  nodup : p.cands.Nodup
  cast : CastOK p
  part : (p.cands ++ electedIn acc).Perm cands
  noelim : eliminatedIn acc = []
  good : Good cands acc

theorem rdInv_step (cands : List Cand) (p : Profile) (acc : List RoundState) (w : Cand) (sc : List (Cand × Rat))
    (rnd : Nat) (tbs : List (List Cand × Ranking)) (inv : RdInv cands p acc) (hw : w ∈ p.cands)
    (hs : firstPlaceVotes (removeCand [w] p) = .ok sc) :
    RdInv cands (removeCand [w] p)
      ({ round := rnd, remaining := scoreToRanking sc, elected := [[w]], eliminated := [], tiebreaks := tbs, scores := sc } :: acc) := by
  have hkeys : sc.map (·.1) = (removeCand [w] p).cands := scoreFromRankings_keys _ _ _ hs
  have hrem : (scoreToRanking sc).flatten.Perm (removeCand [w] p).cands := by
    have := scoreToRanking_perm sc
    rwa [hkeys] at this
  have hc' : (removeCand [w] p).cands = p.cands.filter (fun c => !([w] : List Cand).contains c) := rfl
  have hsplit : ((removeCand [w] p).cands ++ [w]).Perm p.cands := by
    rw [hc']
    exact filter_not_contains_perm p.cands [w] inv.nodup (by simp) (by intro c hc; simp at hc; subst hc; exact hw)
  have hpart : ((removeCand [w] p).cands ++ electedIn
      ({ round := rnd, remaining := scoreToRanking sc, elected := [[w]], eliminated := [], tiebreaks := tbs, scores := sc } :: acc)).Perm cands := by
    rw [electedIn_cons]
    simp only [List.flatten_cons, List.flatten_nil, List.append_nil]
    rw [← List.append_assoc]
    exact (List.Perm.append_right _ hsplit).trans inv.part
  have hnoelim : eliminatedIn
      ({ round := rnd, remaining := scoreToRanking sc, elected := [[w]], eliminated := [], tiebreaks := tbs, scores := sc } :: acc) = [] := by
    rw [eliminatedIn_cons]; simp [inv.noelim]
  refine ⟨by rw [hc']; exact inv.nodup.filter _, removeCand_castOK w p inv.cast, hpart, hnoelim, ?_, inv.good⟩
  rw [hnoelim, List.append_nil]
  exact (List.Perm.append_right _ hrem).trans hpart

theorem rdLoop_good (cands : List Cand) (m : Nat) (ω : RDOracle) (fuel : Nat) (p : Profile) (n rnd : Nat)
    (acc : List RoundState) (st : States) (inv : RdInv cands p acc)
    (h : rdLoop m ω fuel p n rnd acc = .ok st) : Good cands st.reverse ∧ eliminatedIn st = [] := by
  have fin : ∀ acc : List RoundState, Good cands acc → eliminatedIn acc = [] →
      Good cands acc.reverse.reverse ∧ eliminatedIn acc.reverse = [] := by
    intro acc hg he
    refine ⟨by simpa using hg, ?_⟩
    unfold eliminatedIn at he ⊢
    have := (((List.reverse_perm acc).flatMap_right (·.eliminated)).flatten)
    exact List.Perm.eq_nil (he ▸ this)
  induction fuel generalizing p n rnd acc with
  | zero =>
    unfold rdLoop at h
    split at h
    · injection h with h; subst h; exact fin acc inv.good inv.noelim
    · cases h
  | succ fuel ih =>
    unfold rdLoop at h
    split at h
    · injection h with h; subst h; exact fin acc inv.good inv.noelim
    · cases hd : dictatorPick p (ω.pick rnd) (ω.pri rnd) with
      | ok wt =>
        obtain ⟨w, tbs⟩ := wt
        simp only [hd, bind, Outcome.bind] at h
        cases hs : firstPlaceVotes (removeCand [w] p) with
        | ok sc =>
          simp only [hs] at h
          exact ih _ _ _ _ (rdInv_step cands p acc w sc rnd tbs inv (dictatorPick_mem p _ _ w tbs inv.cast hd) hs) h
        | raised e => simp [hs] at h
        | oracleMismatch => simp [hs] at h
        | outOfFuel => simp [hs] at h
      | raised e => simp [hd, bind, Outcome.bind] at h
      | oracleMismatch => simp [hd, bind, Outcome.bind] at h
      | outOfFuel => simp [hd, bind, Outcome.bind] at h

theorem rdInv_init (p : Profile) (sc0 : List (Cand × Rat)) (hn : p.cands.Nodup) (hc : CastOK p)
    (h0 : firstPlaceVotes p = .ok sc0) : RdInv p.cands p [initialState p.cands (some sc0)] := by
  have hkeys : sc0.map (·.1) = p.cands := scoreFromRankings_keys _ _ _ h0
  have hrem : (scoreToRanking sc0).flatten.Perm p.cands := by
    have := scoreToRanking_perm sc0
    rwa [hkeys] at this
  refine ⟨hn, hc, by simp [electedIn, initialState], by simp [eliminatedIn, initialState], ?_, trivial⟩
  simpa [electedIn, eliminatedIn, initialState] using hrem

/-- **RandomDictator, every round.** For a profile over duplicate-free declared candidates whose
ballots mention only those: whenever the election finishes (any oracle), at every recorded round the
remaining candidates together with the candidates elected up to that round are a rearrangement of the
candidate list, and nobody is ever eliminated. -/
theorem C01_random_dictator_partition (p : Profile) (m : Int) (ω : RDOracle) (st : States)
    (hn : p.cands.Nodup) (hc : CastOK p) (h : randomDictatorRun p m ω = .ok st) :
    Good p.cands st.reverse ∧ eliminatedIn st = [] := by
  unfold randomDictatorRun at h
  split at h; · cases h
  split at h; · cases h
  cases h0 : firstPlaceVotes p with
  | ok sc0 =>
    simp only [h0, bind, Outcome.bind] at h
    exact rdLoop_good p.cands m.toNat ω _ p 0 1 _ st (rdInv_init p sc0 hn hc h0) h
  | raised e => simp [h0, bind, Outcome.bind] at h
  | oracleMismatch => simp [h0, bind, Outcome.bind] at h
  | outOfFuel => simp [h0, bind, Outcome.bind] at h

theorem boostedPick_mem (p : Profile) (scores : List (Cand × Rat)) (ω : RDOracle) (rnd : Nat) (w : Cand)
    (t : List (List Cand × Ranking)) (hp : CastOK p) (hk : scores.map (·.1) = p.cands)
    (h : boostedPick p scores ω rnd = .ok (w, t)) : w ∈ p.cands := by
  unfold boostedPick at h
  split at h
  · rename_i c hc
    injection h with h
    injection h with h1 _
    subst h1
    rw [hc]; simp
  · split at h
    · split at h
      · cases h
      · split at h
        · rename_i hany
          injection h with h
          injection h with h1 _
          subst h1
          obtain ⟨cs, hcs, hcond⟩ := List.any_eq_true.1 hany
          simp only [Bool.and_eq_true, decide_eq_true_eq] at hcond
          rw [← hk, ← hcond.1]
          exact List.mem_map_of_mem hcs
        · cases h
    · exact dictatorPick_mem p _ _ w t hp h

theorem brdLoop_good (cands : List Cand) (m : Nat) (ω : RDOracle) (fuel : Nat) (p : Profile) (scores : List (Cand × Rat))
    (n rnd : Nat) (acc : List RoundState) (st : States) (inv : RdInv cands p acc) (hk : scores.map (·.1) = p.cands)
    (h : brdLoop m ω fuel p scores n rnd acc = .ok st) : Good cands st.reverse ∧ eliminatedIn st = [] := by
  have fin : ∀ acc : List RoundState, Good cands acc → eliminatedIn acc = [] →
      Good cands acc.reverse.reverse ∧ eliminatedIn acc.reverse = [] := by
    intro acc hg he
    refine ⟨by simpa using hg, ?_⟩
    unfold eliminatedIn at he ⊢
    have := (((List.reverse_perm acc).flatMap_right (·.eliminated)).flatten)
    exact List.Perm.eq_nil (he ▸ this)
  induction fuel generalizing p scores n rnd acc with
  | zero =>
    unfold brdLoop at h
    split at h
    · injection h with h; subst h; exact fin acc inv.good inv.noelim
    · cases h
  | succ fuel ih =>
    unfold brdLoop at h
    split at h
    · injection h with h; subst h; exact fin acc inv.good inv.noelim
    · cases hd : boostedPick p scores ω rnd with
      | ok wt =>
        obtain ⟨w, tbs⟩ := wt
        simp only [hd, bind, Outcome.bind] at h
        cases hs : firstPlaceVotes (removeCand [w] p) with
        | ok sc =>
          simp only [hs] at h
          exact ih _ _ _ _ _ (rdInv_step cands p acc w sc rnd tbs inv (boostedPick_mem p scores ω rnd w tbs inv.cast hk hd) hs)
            (scoreFromRankings_keys _ _ _ hs) h
        | raised e => simp [hs] at h
        | oracleMismatch => simp [hs] at h
        | outOfFuel => simp [hs] at h
      | raised e => simp [hd, bind, Outcome.bind] at h
      | oracleMismatch => simp [hd, bind, Outcome.bind] at h
      | outOfFuel => simp [hd, bind, Outcome.bind] at h

/-- **BoostedRandomDictator, every round**: the same round-by-round partition, whichever branch each
round takes and whatever the oracle draws. -/
theorem C01_boosted_partition (p : Profile) (m : Int) (ω : RDOracle) (st : States)
    (hn : p.cands.Nodup) (hc : CastOK p) (h : boostedRun p m ω = .ok st) :
    Good p.cands st.reverse ∧ eliminatedIn st = [] := by
  unfold boostedRun at h
  split at h; · cases h
  split at h; · cases h
  cases h0 : firstPlaceVotes p with
  | ok sc0 =>
    simp only [h0, bind, Outcome.bind] at h
    exact brdLoop_good p.cands m.toNat ω _ p sc0 0 1 _ st (rdInv_init p sc0 hn hc h0) (scoreFromRankings_keys _ _ _ h0) h
  | raised e => simp [h0, bind, Outcome.bind] at h
  | oracleMismatch => simp [h0, bind, Outcome.bind] at h
  | outOfFuel => simp [h0, bind, Outcome.bind] at h

end VK
