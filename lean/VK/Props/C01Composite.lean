/-
  C01, partition at every recorded round for the single-round rules and the composites:
  Plurality / SNTV / Borda / the score rules (both recorded rounds), CondoBorda, TopTwo (three
  rounds) and Alaska (plurality stage followed by the renumbered STV rounds). `Good cands l` (newest
  round first) says: at every recorded round the remaining candidates, the winners so far and the
  candidates eliminated so far list each candidate exactly once.
-/
import VK.Props.C01

namespace VK

/-- both recorded rounds of a "score, then elect the top m" election partition the candidates -/
theorem topMRun_good (p : Profile) (m : Nat) (tb : Option TB) (pri : List Cand)
    (score : Profile → Outcome (List (Cand × Rat))) (st : States) (hc : p.cands.Nodup)
    (hkeys : ∀ sc, score p = .ok sc → sc.map (·.1) = p.cands)
    (h : topMRun p m tb pri score = .ok st) : Good p.cands st.reverse := by
  obtain ⟨sc0, r, sc1, h0, h1, rfl⟩ := topMRun_ok p m tb pri score st h
  have hk := hkeys sc0 h0
  have hperm0 := scoreToRanking_perm sc0
  rw [hk] at hperm0
  have hnd : ∀ g ∈ scoreToRanking sc0, g.Nodup := scoreToRanking_groups_nodup sc0 (by rw [hk]; exact hc)
  have hsub : ∀ q, some p = some q → q.cands.Nodup ∧ ∀ g ∈ scoreToRanking sc0, ∀ c ∈ g, c ∈ q.cands := by
    intro q hq; injection hq with hq; subst hq
    exact ⟨hc, fun g hg c hcg => hperm0.mem_iff.1 (List.mem_flatten.2 ⟨g, hg, hcg⟩)⟩
  obtain ⟨_, hperm⟩ := electFromRanking_count pri _ m (some p) tb r hnd hsub h1
  simp only [List.reverse_cons, List.reverse_nil, List.nil_append, List.singleton_append]
  refine ⟨?_, ?_, trivial⟩
  · simp only [electedIn, eliminatedIn, initialState, List.flatMap_cons, List.flatMap_nil, List.append_nil,
      List.flatten_nil]
    exact (List.perm_append_comm.trans hperm).trans hperm0
  · simpa [electedIn, eliminatedIn, initialState] using hperm0

/-- **Plurality / SNTV: every recorded round partitions the candidates.** -/
theorem C01_plurality_partition (p : Profile) (m : Nat) (tb : Option TB) (pri : List Cand) (st : States)
    (hc : p.cands.Nodup) (h : pluralityRun p m tb pri = .ok st) : Good p.cands st.reverse := by
  unfold pluralityRun at h
  split at h; · cases h
  exact topMRun_good p m tb pri firstPlaceVotes st hc (fun sc hsc => scoreFromRankings_keys p _ sc hsc) h

/-- **Borda (any valid score vector): every recorded round partitions the candidates.** -/
theorem C01_borda_partition (p : Profile) (m : Nat) (v : Option (List Rat)) (tb : Option TB) (pri : List Cand)
    (st : States) (hc : p.cands.Nodup) (h : bordaRun p m v tb pri = .ok st) : Good p.cands st.reverse := by
  unfold bordaRun at h
  have key : ∀ vec, (if !validVector vec then Outcome.raised Exn.valueError
      else if !rankingValid p then Outcome.raised Exn.typeError
      else topMRun p m tb pri (fun q => scoreFromRankings q vec)) = .ok st → Good p.cands st.reverse := by
    intro vec hv
    split at hv; · cases hv
    split at hv; · cases hv
    exact topMRun_good p m tb pri _ st hc (fun sc hsc => scoreFromRankings_keys p _ sc hsc) hv
  exact key _ h

/-- **CondoBorda: every recorded round partitions the candidates** (profiles with at least one ballot;
without ballots the pairwise graph is empty and the rule raises, finding F-C01-g). -/
theorem C01_condoborda_partition (p : Profile) (m : Nat) (pri : List Cand) (st : States)
    (hc : p.cands.Nodup) (hb : p.ballots ≠ []) (h : condoBordaRun p m pri = .ok st) :
    Good p.cands st.reverse := by
  unfold condoBordaRun at h
  split at h; · cases h
  cases h0 : bordaScores p with
  | ok sc0 =>
    simp only [h0, bind, Outcome.bind] at h
    cases h1 : electFromRanking pri (dominatingTiers p) m (some p) (some .borda) with
    | ok r =>
      simp only [h1] at h
      cases h2 : bordaScores (removeCand r.elected.flatten p) with
      | ok sc1 =>
        simp only [h2, pure, Outcome.ok.injEq] at h
        subst h
        have hgc : graphCands p = p.cands := by
          unfold graphCands
          have : p.ballots.isEmpty = false := by
            cases hbb : p.ballots with
            | nil => exact absurd hbb hb
            | cons _ _ => rfl
          simp [this]
        have hperm := C06_tiers_partition p
        rw [hgc] at hperm
        have hnn : (dominatingTiers p).flatten.Nodup := hperm.nodup_iff.2 hc
        have hnd : ∀ g ∈ dominatingTiers p, g.Nodup := fun g hg => (List.nodup_flatten.1 hnn).1 g hg
        have hsub : ∀ q, some p = some q → q.cands.Nodup ∧ ∀ g ∈ dominatingTiers p, ∀ c ∈ g, c ∈ q.cands := by
          intro q hq; injection hq with hq; subst hq
          exact ⟨hc, fun g hg c hcg => hperm.mem_iff.1 (List.mem_flatten.2 ⟨g, hg, hcg⟩)⟩
        obtain ⟨_, hp⟩ := electFromRanking_count pri _ m (some p) (some .borda) r hnd hsub h1
        have hk : sc0.map (·.1) = p.cands := scoreFromRankings_keys p _ sc0 h0
        have hperm0 := scoreToRanking_perm sc0
        rw [hk] at hperm0
        simp only [List.reverse_cons, List.reverse_nil, List.nil_append, List.singleton_append]
        refine ⟨?_, ?_, trivial⟩
        · simp only [electedIn, eliminatedIn, initialState, List.flatMap_cons, List.flatMap_nil, List.append_nil,
            List.flatten_nil]
          exact (List.perm_append_comm.trans hp).trans hperm
        · simpa [electedIn, eliminatedIn, initialState] using hperm0
      | raised e => simp [h2] at h
      | oracleMismatch => simp [h2] at h
      | outOfFuel => simp [h2] at h
    | raised e => simp [h1] at h
    | oracleMismatch => simp [h1] at h
    | outOfFuel => simp [h1] at h
  | raised e => simp [h0, bind, Outcome.bind] at h
  | oracleMismatch => simp [h0, bind, Outcome.bind] at h
  | outOfFuel => simp [h0, bind, Outcome.bind] at h

/-! ### the finalist stage shared by TopTwo and Alaska -/

/-- what the finalist stage records: round 0 lists everybody as remaining; round 1 lists the finalists
as remaining and everybody else as eliminated, and the profile handed on has exactly the finalists -/
theorem finalistStage_spec (p : Profile) (k : Nat) (tb : Option TB) (pri : List Cand)
    (st0 st1 : RoundState) (p1 : Profile) (hc : p.cands.Nodup)
    (h : finalistStage p k tb pri = .ok (st0, st1, p1)) :
    st0.remaining.flatten.Perm p.cands ∧ st0.elected = [] ∧ st0.eliminated = [] ∧ st1.elected = [] ∧
    (st1.remaining.flatten ++ st1.eliminated.flatten).Perm p.cands ∧
    p1.cands.Perm st1.remaining.flatten ∧ p1.cands.Nodup := by
  unfold finalistStage at h
  cases h0 : firstPlaceVotes p with
  | ok sc0 =>
    simp only [h0, bind, Outcome.bind] at h
    cases h1 : pluralityRun p k tb pri with
    | ok pl =>
      simp only [h1] at h
      split at h
      · rename_i s0 s1
        cases h2 : firstPlaceVotes (removeCand s1.remaining.flatten p) with
        | ok sc1 =>
          simp only [h2, pure, Outcome.ok.injEq, Prod.mk.injEq] at h
          obtain ⟨e0, e1, e2⟩ := h
          subst e0 e1 e2
          have hk : sc0.map (·.1) = p.cands := scoreFromRankings_keys p _ sc0 h0
          have hperm0 := scoreToRanking_perm sc0
          rw [hk] at hperm0
          obtain ⟨_, _, last, hlast, hpl⟩ := C01_plurality p k tb pri _ hc h1
          simp only [List.getLast?_cons_cons, List.getLast?_singleton, Option.some.injEq] at hlast
          subst hlast
          have hnd : (s1.elected.flatten ++ s1.remaining.flatten).Nodup := hpl.nodup_iff.2 hc
          have hRn : s1.remaining.flatten.Nodup := (List.nodup_append.1 hnd).2.1
          have hRsub : ∀ c ∈ s1.remaining.flatten, c ∈ p.cands :=
            fun c hcm => hpl.mem_iff.1 (List.mem_append_right _ hcm)
          have hsplit := filter_not_contains_perm p.cands s1.remaining.flatten hc hRn hRsub
          have hp1 : (removeCand s1.remaining.flatten p).cands.Perm s1.elected.flatten := by
            have h3 : ((removeCand s1.remaining.flatten p).cands ++ s1.remaining.flatten).Perm
                (s1.elected.flatten ++ s1.remaining.flatten) := hsplit.trans hpl.symm
            exact (List.perm_append_right_iff _).1 h3
          refine ⟨by simpa [initialState] using hperm0, by simp [initialState], by simp [initialState], rfl,
            hpl, hp1, removeCand_cands_nodup _ _ hc⟩
        | raised e => simp [h2] at h
        | oracleMismatch => simp [h2] at h
        | outOfFuel => simp [h2] at h
      · cases h
    | raised e => simp [h1] at h
    | oracleMismatch => simp [h1] at h
    | outOfFuel => simp [h1] at h
  | raised e => simp [h0, bind, Outcome.bind] at h
  | oracleMismatch => simp [h0, bind, Outcome.bind] at h
  | outOfFuel => simp [h0, bind, Outcome.bind] at h

/-- **TopTwo: every one of the three recorded rounds partitions the candidates.** -/
theorem C01_toptwo_partition (p : Profile) (tb : Option TB) (pri : Nat → List Cand) (st : States)
    (hc : p.cands.Nodup) (h : topTwoRun p tb pri = .ok st) : Good p.cands st.reverse := by
  unfold topTwoRun at h
  split at h; · cases h
  cases h1 : finalistStage p 2 tb (pri 1) with
  | ok x =>
    obtain ⟨st0, st1, p1⟩ := x
    simp only [h1, bind, Outcome.bind] at h
    obtain ⟨g0, e0, x0, e1, g1, hp1, hp1n⟩ := finalistStage_spec p 2 tb (pri 1) st0 st1 p1 hc h1
    cases h2 : pluralityRun p1 1 tb (pri 2) with
    | ok pl =>
      simp only [h2] at h
      split at h
      · rename_i s0 s
        simp only [pure, Outcome.ok.injEq] at h
        subst h
        obtain ⟨_, helim, last, hlast, hpl⟩ := C01_plurality p1 1 tb (pri 2) _ hp1n h2
        simp only [List.getLast?_cons_cons, List.getLast?_singleton, Option.some.injEq] at hlast
        subst hlast
        have hselim : s.eliminated = [] := by
          simp only [eliminatedOf, List.flatMap_cons, List.flatMap_nil, List.append_nil, List.flatten_append] at helim
          obtain ⟨sc0, r, sc1, _, _, hst⟩ := topMRun_ok p1 1 tb (pri 2) firstPlaceVotes _ (by
            unfold pluralityRun at h2; split at h2; · cases h2
            exact h2)
          injection hst with _ hrest
          injection hrest with hs1 _
          rw [hs1]
        simp only [List.reverse_cons, List.reverse_nil, List.nil_append, List.cons_append]
        refine ⟨?_, ?_, ?_, trivial⟩
        · simp only [electedIn, eliminatedIn, List.flatMap_cons, List.flatMap_nil, List.append_nil, e0, e1, x0,
            hselim, List.flatten_nil, List.nil_append, List.flatten_append]
          have h3 : (s.remaining.flatten ++ s.elected.flatten).Perm st1.remaining.flatten :=
            (List.perm_append_comm.trans hpl).trans hp1
          exact (List.Perm.append_right _ h3).trans g1
        · simp only [electedIn, eliminatedIn, List.flatMap_cons, List.flatMap_nil, List.append_nil, e0, e1, x0,
            List.flatten_nil, List.nil_append]
          simpa using g1
        · simp only [electedIn, eliminatedIn, List.flatMap_cons, List.flatMap_nil, List.append_nil, e0, x0,
            List.flatten_nil]
          simpa using g0
      · cases h
    | raised e => simp [h2] at h
    | oracleMismatch => simp [h2] at h
    | outOfFuel => simp [h2] at h
  | raised e => simp [h1, bind, Outcome.bind] at h
  | oracleMismatch => simp [h1, bind, Outcome.bind] at h
  | outOfFuel => simp [h1, bind, Outcome.bind] at h

/-! ### Alaska: the plurality stage followed by the renumbered STV rounds -/

/-- the accumulator of the count loop is only extended at the front and reversed at the end: the trace
starts with what the accumulator ended with -/
theorem stvLoop_head (cfg : STVCfg) (init : Profile) (q : Int) (ω : STVOracle) (fuel : Nat) (S : CState)
    (prev : RoundState) (acc tr : List (RoundState × CState)) (x : RoundState × CState)
    (h : stvLoop cfg init q ω fuel S prev acc = .ok tr) (hx : acc.getLast? = some x) : tr.head? = some x := by
  induction fuel generalizing S prev acc with
  | zero =>
    unfold stvLoop at h
    split at h
    · injection h with h; subst h; rw [List.head?_reverse]; exact hx
    · cases h
  | succ fuel ih =>
    unfold stvLoop at h
    split at h
    · injection h with h; subst h; rw [List.head?_reverse]; exact hx
    · cases hs : stvStep cfg init q ω (prev.round + 1) S prev with
      | ok Sr =>
        simp only [hs, bind, Outcome.bind] at h
        refine ih _ _ _ h ?_
        cases acc with
        | nil => simp at hx
        | cons a as => simpa [List.getLast?_cons_cons] using hx
      | raised e => simp [hs, bind, Outcome.bind] at h
      | oracleMismatch => simp [hs, bind, Outcome.bind] at h
      | outOfFuel => simp [hs, bind, Outcome.bind] at h

/-- the first recorded state of an STV count is the initial state: everybody remaining -/
theorem stvRun_head (cfg : STVCfg) (p : Profile) (ω : STVOracle) (res : STVResult)
    (h : stvRun cfg p ω = .ok res) :
    ∃ s0 rest, res.states = s0 :: rest ∧ s0.elected = [] ∧ s0.eliminated = [] := by
  unfold stvRun at h
  split at h; · cases h
  split at h; · cases h
  split at h; · cases h
  cases hf : firstPlaceVotes p with
  | ok sc0 =>
    simp only [hf, bind, Outcome.bind] at h
    cases hl : stvLoop cfg p (threshold cfg.quota cfg.m p.total) ω (p.cands.length + 2) (stvInitState p)
        (initialState p.cands (some sc0)) [(initialState p.cands (some sc0), stvInitState p)] with
    | ok tr =>
      simp only [hl, pure, Outcome.ok.injEq] at h
      have := stvLoop_head cfg p _ ω _ _ _ _ tr (initialState p.cands (some sc0), stvInitState p) hl (by simp)
      subst h
      cases tr with
      | nil => simp at this
      | cons t0 ts =>
        simp only [List.head?_cons, Option.some.injEq] at this
        refine ⟨t0.1, ts.map (·.1), by simp [STVResult.states], ?_, ?_⟩ <;> rw [this] <;> simp [initialState]
    | raised e => simp [hl] at h
    | oracleMismatch => simp [hl] at h
    | outOfFuel => simp [hl] at h
  | raised e => simp [hf, bind, Outcome.bind] at h
  | oracleMismatch => simp [hf, bind, Outcome.bind] at h
  | outOfFuel => simp [hf, bind, Outcome.bind] at h

theorem electedIn_append (a b : List RoundState) : electedIn (a ++ b) = electedIn a ++ electedIn b := by
  simp [electedIn]

theorem eliminatedIn_append (a b : List RoundState) : eliminatedIn (a ++ b) = eliminatedIn a ++ eliminatedIn b := by
  simp [eliminatedIn]

theorem electedIn_map (l : List RoundState) (f : RoundState → RoundState) (hf : ∀ s, (f s).elected = s.elected) :
    electedIn (l.map f) = electedIn l := by
  unfold electedIn
  induction l with
  | nil => rfl
  | cons x xs ih => simp only [List.map_cons, List.flatMap_cons, hf, List.flatten_append, ih]

theorem eliminatedIn_map (l : List RoundState) (f : RoundState → RoundState) (hf : ∀ s, (f s).eliminated = s.eliminated) :
    eliminatedIn (l.map f) = eliminatedIn l := by
  unfold eliminatedIn
  induction l with
  | nil => rfl
  | cons x xs ih => simp only [List.map_cons, List.flatMap_cons, hf, List.flatten_append, ih]

/-- rounds of a second stage over the finalists `c1`, recorded on top of earlier rounds `base` that
eliminated everybody else and elected nobody, partition the full candidate list -/
theorem Good_lift (cands c1 : List Cand) (l base : List RoundState) (s0 : RoundState)
    (f : RoundState → RoundState)
    (hf1 : ∀ s, (f s).remaining = s.remaining) (hf2 : ∀ s, (f s).elected = s.elected)
    (hf3 : ∀ s, (f s).eliminated = s.eliminated)
    (hs0 : s0.elected = [] ∧ s0.eliminated = [])
    (hg : Good c1 (l ++ [s0])) (hbase : Good cands base) (hbe : electedIn base = [])
    (hsplit : (c1 ++ eliminatedIn base).Perm cands) : Good cands (l.map f ++ base) := by
  induction l with
  | nil => simpa using hbase
  | cons r l' ih =>
    obtain ⟨hp0, hg'⟩ := hg
    have hp : (r.remaining.flatten ++ electedIn (r :: (l' ++ [s0])) ++ eliminatedIn (r :: (l' ++ [s0]))).Perm c1 := hp0
    refine ⟨?_, ih hg'⟩
    have h0e : electedIn [s0] = [] := by simp [electedIn, hs0.1]
    have h0x : eliminatedIn [s0] = [] := by simp [eliminatedIn, hs0.2]
    have e1 : electedIn (r :: (l' ++ [s0])) = electedIn (r :: l') := by
      rw [← List.cons_append, electedIn_append, h0e, List.append_nil]
    have e2 : eliminatedIn (r :: (l' ++ [s0])) = eliminatedIn (r :: l') := by
      rw [← List.cons_append, eliminatedIn_append, h0x, List.append_nil]
    rw [e1, e2] at hp
    have e3 : electedIn ((r :: l').map f ++ base) = electedIn (r :: l') := by
      rw [electedIn_append, electedIn_map _ f hf2, hbe, List.append_nil]
    have e4 : eliminatedIn ((r :: l').map f ++ base) = eliminatedIn (r :: l') ++ eliminatedIn base := by
      rw [eliminatedIn_append, eliminatedIn_map _ f hf3]
    show ((f r).remaining.flatten ++ electedIn ((r :: l').map f ++ base) ++
      eliminatedIn ((r :: l').map f ++ base)).Perm cands
    rw [e3, e4, hf1, ← List.append_assoc]
    exact (List.Perm.append_right _ hp).trans hsplit

/-- **Alaska: every recorded round partitions the candidates** — the plurality stage (everybody, then the
finalists against the eliminated rest) and every renumbered round of the STV stage. -/
theorem C01_alaska_partition (p : Profile) (m1 m2 : Int) (cfg : STVCfg) (ω : STVOracle) (st : States)
    (hc : p.cands.Nodup) (h : alaskaRun p m1 m2 cfg ω = .ok st) : Good p.cands st.reverse := by
  unfold alaskaRun at h
  split at h; · cases h
  split at h; · cases h
  cases h1 : finalistStage p m1.toNat cfg.tiebreak (ω.pri 1) with
  | ok x =>
    obtain ⟨st0, st1, p1⟩ := x
    simp only [h1, bind, Outcome.bind] at h
    obtain ⟨g0, e0, x0, e1, g1, hp1, hp1n⟩ := finalistStage_spec p _ _ _ st0 st1 p1 hc h1
    cases h2 : stvRun { cfg with m := m2.toNat } p1
        { pri := fun r => ω.pri (r + 1), sample := fun r => ω.sample (r + 1) } true with
    | ok res =>
      simp only [h2, pure, Outcome.ok.injEq] at h
      subst h
      obtain ⟨_, hgood⟩ := C01_stv_exactly_m_and_partition _ p1 _ res hp1n h2
      obtain ⟨s0, rest, hres, hs0e, hs0x⟩ := stvRun_head _ p1 _ res h2
      rw [hres] at hgood ⊢
      simp only [List.drop_succ_cons, List.drop_zero, List.reverse_cons, List.append_assoc, List.singleton_append]
      rw [← List.map_reverse]
      simp only [List.reverse_cons] at hgood
      have hbase : Good p.cands [st1, st0] := by
        refine ⟨?_, ?_, trivial⟩
        · simp only [electedIn, eliminatedIn, List.flatMap_cons, List.flatMap_nil, List.append_nil, e0, e1, x0,
            List.flatten_nil]
          simpa using g1
        · simp only [electedIn, eliminatedIn, List.flatMap_cons, List.flatMap_nil, List.append_nil, e0, x0,
            List.flatten_nil]
          simpa using g0
      refine Good_lift p.cands p1.cands rest.reverse [st1, st0] s0 _ (fun _ => rfl) (fun _ => rfl) (fun _ => rfl)
        ⟨hs0e, hs0x⟩ hgood hbase ?_ ?_
      · simp [electedIn, e0, e1]
      · have : eliminatedIn [st1, st0] = st1.eliminated.flatten := by simp [eliminatedIn, x0]
        rw [this]
        exact (List.Perm.append_right _ hp1).trans g1
    | raised e => simp [h2] at h
    | oracleMismatch => simp [h2] at h
    | outOfFuel => simp [h2] at h
  | raised e => simp [h1, bind, Outcome.bind] at h
  | oracleMismatch => simp [h1, bind, Outcome.bind] at h
  | outOfFuel => simp [h1, bind, Outcome.bind] at h

/-! ### the score-ballot rules and non-vacuity -/

theorem scoreFromBallotScores_keys (p : Profile) (sc : List (Cand × Rat))
    (h : scoreFromBallotScores p = .ok sc) : sc.map (·.1) = p.cands := by
  unfold scoreFromBallotScores at h
  split at h; · cases h
  split at h; · cases h
  injection h with h
  rw [← h]; simp [List.map_map, Function.comp_def]

/-- **Rating / Limited / Cumulative / Approval / BlocPlurality: every recorded round partitions the
candidates** (all six classes run `generalRatingRun`). -/
theorem C01_rating_partition (p : Profile) (m : Int) (L : Rat) (k : Option Rat) (tb : Option TB)
    (pri : List Cand) (st : States) (hc : p.cands.Nodup)
    (h : generalRatingRun p m L k tb pri = .ok st) : Good p.cands st.reverse := by
  unfold generalRatingRun at h
  split at h; · cases h
  split at h; · cases h
  exact topMRun_good p m.toNat tb pri scoreFromBallotScores st hc
    (fun sc hsc => scoreFromBallotScores_keys p sc hsc) h

/-- non-vacuity: A>B x3, B x2 over A, B — TopTwo and Alaska(2,1) both finish -/
example : (topTwoRun exProfile none (fun _ => [])).isOk = true := by decide +kernel
example : (alaskaRun exProfile 2 1 { m := 1 } {}).isOk = true := by decide +kernel
example : (condoBordaRun exProfile 1 []).isOk = true := by decide +kernel

end VK
