/-
  C19, bridge: the executable rational quantity `lpPow p P Q` (what the correspondence check compares with
  `lp_dist`) IS the p-th power of the real p-norm distance of the two profiles' share functions, on any
  finite set of rankings containing both supports. Hence the model-level distance
  `lpD p P Q = (lpPow p P Q)^(1/p)` is symmetric, zero exactly for equal share functions, and satisfies
  the triangle inequality for every natural `p ≥ 1` and every three profiles.
-/
import VK.Props.C19
import Mathlib.Analysis.SpecialFunctions.Pow.Real
import Mathlib.Data.Rat.Cast.Order

namespace VK

theorem mem_rankKeys (bs : List Ballot) (r : Ranking) : r ∈ rankKeys bs ↔ ∃ b ∈ bs, b.ranking = r := by
  induction bs with
  | nil => simp [rankKeys]
  | cons b bs ih =>
    simp only [rankKeys, List.mem_cons, List.mem_filter, ih]
    constructor
    · rintro (h | ⟨⟨b', hb', hr⟩, _⟩)
      · exact ⟨b, Or.inl rfl, h.symm⟩
      · exact ⟨b', Or.inr hb', hr⟩
    · rintro ⟨b', hb' | hb', hr⟩
      · left; rw [← hr, hb']
      · by_cases h : r = b.ranking
        · exact Or.inl h
        · exact Or.inr ⟨⟨b', hb', hr⟩, by simpa using h⟩

theorem rankKeys_nodup (bs : List Ballot) : (rankKeys bs).Nodup := by
  induction bs with
  | nil => simp [rankKeys]
  | cons b bs ih =>
    simp only [rankKeys, List.nodup_cons, List.mem_filter]
    exact ⟨fun h => by simpa using h.2, ih.filter _⟩

theorem unionKeys_nodup (a b : List Ballot) : (unionKeys a b).Nodup := by
  unfold unionKeys
  rw [List.nodup_append]
  refine ⟨rankKeys_nodup a, (rankKeys_nodup b).filter _, ?_⟩
  intro x hx y hy hxy
  subst hxy
  have := (List.mem_filter.1 hy).2
  simp [hx] at this

theorem mem_unionKeys (a b : List Ballot) (r : Ranking) : r ∈ unionKeys a b ↔ r ∈ rankKeys a ∨ r ∈ rankKeys b := by
  unfold unionKeys
  simp only [List.mem_append, List.mem_filter]
  constructor
  · rintro (h | h)
    · exact Or.inl h
    · exact Or.inr h.1
  · rintro (h | h)
    · exact Or.inl h
    · by_cases ha : r ∈ rankKeys a
      · exact Or.inl ha
      · exact Or.inr ⟨h, by simpa using ha⟩

theorem share_eq_zero_of_not_mem (bs : List Ballot) (r : Ranking) (h : r ∉ rankKeys bs) : share bs r = 0 := by
  unfold share rankWt
  have : bs.filter (fun b => b.ranking = r) = [] := by
    rw [List.filter_eq_nil_iff]
    intro b hb
    have : b.ranking ≠ r := fun e => h ((mem_rankKeys bs r).2 ⟨b, hb, e⟩)
    simpa using this
  rw [this]; simp

theorem cast_rpow (x : Rat) (p : Nat) : ((rpow x p : Rat) : ℝ) = (x : ℝ) ^ p := by
  induction p with
  | zero => simp [rpow]
  | succ n ih => simp only [rpow, Rat.cast_mul, ih, pow_succ]; ring

theorem cast_rabs (x : Rat) : ((rabs x : Rat) : ℝ) = |(x : ℝ)| := by
  unfold rabs
  split
  · rename_i h
    have : (x : ℝ) < 0 := by exact_mod_cast h
    rw [abs_of_neg this]; simp
  · rename_i h
    have : (0 : ℝ) ≤ (x : ℝ) := by exact_mod_cast (not_lt.1 h)
    rw [abs_of_nonneg this]

theorem cast_rsum (l : List Rat) : ((rsum l : Rat) : ℝ) = (l.map (fun x : Rat => (x : ℝ))).sum := by
  induction l with
  | nil => simp
  | cons x xs ih => simp only [rsum_cons, Rat.cast_add, ih, List.map_cons, List.sum_cons]

/-- the real share function of a profile -/
noncomputable def shareR (P : List Ballot) (r : Ranking) : ℝ := ((share P r : Rat) : ℝ)

/-- **Bridge.** On every finite set of rankings containing both supports, the rational power sum the
model computes is the real sum of p-th powers of the share differences. -/
theorem C19_lpPow_eq_sum (p : Nat) (hp : 1 ≤ p) (P Q : List Ballot) (S : Finset Ranking)
    (hS : ∀ r ∈ unionKeys P Q, r ∈ S) :
    ((lpPow p P Q : Rat) : ℝ) = ∑ r ∈ S, |shareR P r - shareR Q r| ^ p := by
  unfold lpPow
  rw [cast_rsum, List.map_map]
  have hterm : ∀ r, (((fun x : Rat => (x : ℝ)) ∘ fun r => rpow (rabs (share P r - share Q r)) p) r) =
      |shareR P r - shareR Q r| ^ p := by
    intro r
    simp only [Function.comp, cast_rpow, cast_rabs, Rat.cast_sub, shareR]
  rw [List.map_congr_left (fun r _ => hterm r)]
  rw [← List.sum_toFinset _ (unionKeys_nodup P Q)]
  apply Finset.sum_subset
  · intro r hr
    exact hS r (List.mem_toFinset.1 hr)
  · intro r _ hr
    have hnot : r ∉ unionKeys P Q := fun h => hr (List.mem_toFinset.2 h)
    rw [mem_unionKeys] at hnot
    have h1 := share_eq_zero_of_not_mem P r (fun h => hnot (Or.inl h))
    have h2 := share_eq_zero_of_not_mem Q r (fun h => hnot (Or.inr h))
    simp only [shareR, h1, h2, sub_self, abs_zero]
    exact zero_pow (by omega)

/-- the model-level Lp distance of two profiles -/
noncomputable def lpD (p : Nat) (P Q : List Ballot) : ℝ := ((lpPow p P Q : Rat) : ℝ) ^ (1 / (p : ℝ))

theorem lpD_eq_lpDist (p : Nat) (hp : 1 ≤ p) (P Q : List Ballot) (S : Finset Ranking)
    (hS : ∀ r ∈ unionKeys P Q, r ∈ S) : lpD p P Q = lpDist S (p : ℝ) (shareR P) (shareR Q) := by
  unfold lpD lpDist
  rw [C19_lpPow_eq_sum p hp P Q S hS]
  congr 1
  apply Finset.sum_congr rfl
  intro r _
  rw [Real.rpow_natCast]

/-- **The profile distance is symmetric.** -/
theorem C19_lpD_symm (p : Nat) (hp : 1 ≤ p) (P Q : List Ballot) : lpD p P Q = lpD p Q P := by
  let S := (unionKeys P Q ++ unionKeys Q P).toFinset
  rw [lpD_eq_lpDist p hp P Q S (fun r hr => List.mem_toFinset.2 (List.mem_append_left _ hr)),
    lpD_eq_lpDist p hp Q P S (fun r hr => List.mem_toFinset.2 (List.mem_append_right _ hr))]
  exact C19_symm S p _ _

/-- **Zero exactly for profiles with the same distribution.** -/
theorem C19_lpD_zero_iff (p : Nat) (hp : 1 ≤ p) (P Q : List Ballot) :
    lpD p P Q = 0 ↔ ∀ r, share P r = share Q r := by
  let S := (unionKeys P Q).toFinset
  rw [lpD_eq_lpDist p hp P Q S (fun r hr => List.mem_toFinset.2 hr)]
  have hp' : (0 : ℝ) < (p : ℝ) := by exact_mod_cast hp
  rw [C19_zero_iff S p hp']
  constructor
  · intro h r
    by_cases hr : r ∈ unionKeys P Q
    · have := h r (List.mem_toFinset.2 hr)
      unfold shareR at this
      exact_mod_cast this
    · rw [mem_unionKeys] at hr
      rw [share_eq_zero_of_not_mem P r (fun h => hr (Or.inl h)), share_eq_zero_of_not_mem Q r (fun h => hr (Or.inr h))]
  · intro h r _
    unfold shareR
    rw [h r]

/-- **Triangle inequality for any three profiles and every natural `p ≥ 1`.** -/
theorem C19_lpD_triangle (p : Nat) (hp : 1 ≤ p) (P Q R : List Ballot) :
    lpD p P R ≤ lpD p P Q + lpD p Q R := by
  let S := (unionKeys P R ++ (unionKeys P Q ++ unionKeys Q R)).toFinset
  rw [lpD_eq_lpDist p hp P R S (fun r hr => List.mem_toFinset.2 (List.mem_append_left _ hr)),
    lpD_eq_lpDist p hp P Q S (fun r hr => List.mem_toFinset.2 (List.mem_append_right _ (List.mem_append_left _ hr))),
    lpD_eq_lpDist p hp Q R S (fun r hr => List.mem_toFinset.2 (List.mem_append_right _ (List.mem_append_right _ hr)))]
  exact C19_triangle S p (by exact_mod_cast hp) _ _ _

end VK
