/-
  VK.Props.C08NeutralPairwise — C08, neutrality of the pairwise layer (margins, the beats-or-ties graph, reach sets,
  dominating tiers, Condorcet winner) and of the two rules built on it (DominatingSets, CondoBorda).
-/
import VK.Props.C08
import VK.Props.C08NeutralRules
namespace VK

section
variable (π : Cand → Cand) (hπ : Function.Injective π)
include hπ

theorem h2h_ren (p : Profile) (a b : Cand) : h2h (renP π p) (π a) (π b) = h2h p a b := by
  unfold h2h renP
  simp only [List.map_map, Function.comp_def]
  congr 1
  apply List.map_congr_left; intro bl _
  show prefShareR (bl.ranking.map (List.map π)) (π a) (π b) * bl.weight = _
  unfold prefShareR
  rw [posOfR_map π hπ, posOfR_map π hπ]

theorem margin_ren (p : Profile) (a b : Cand) : margin (renP π p) (π a) (π b) = margin p a b := by
  unfold margin; rw [h2h_ren π hπ, h2h_ren π hπ]

theorem edge_ren (p : Profile) (a b : Cand) : edge (renP π p) (π a) (π b) = edge p a b := by
  unfold edge
  rw [margin_ren π hπ]
  congr 1
  rw [Bool.eq_iff_iff]; simp only [bne_iff_ne, ne_eq]
  exact ⟨fun hne e => hne (by rw [e]), fun hne e => hne (hπ e)⟩

omit hπ in
theorem graphCands_ren (p : Profile) : graphCands (renP π p) = (graphCands p).map π := by
  unfold graphCands renP
  simp only [List.isEmpty_map]
  split <;> rfl

theorem expand_ren (cands : List Cand) (E E' : Cand → Cand → Bool) (hE : ∀ a b, E' (π a) (π b) = E a b)
    (seen : List Cand) : expand (cands.map π) E' (seen.map π) = (expand cands E seen).map π := by
  unfold expand
  rw [List.filter_map]; congr 1
  apply List.filter_congr; intro x _
  simp only [Function.comp_def, contains_map_inj π hπ, List.any_map, hE]

theorem iter_expand_ren (cands : List Cand) (E E' : Cand → Cand → Bool) (hE : ∀ a b, E' (π a) (π b) = E a b)
    (n : Nat) (seen : List Cand) :
    iter (expand (cands.map π) E') n (seen.map π) = (iter (expand cands E) n seen).map π := by
  induction n generalizing seen with
  | zero => rfl
  | succ k ih =>
    simp only [iter]
    rw [expand_ren π hπ cands E E' hE, ih]

theorem reach_ren (cands : List Cand) (E E' : Cand → Cand → Bool) (hE : ∀ a b, E' (π a) (π b) = E a b) (a : Cand) :
    reach (cands.map π) E' (π a) = (reach cands E a).map π := by
  unfold reach
  rw [List.length_map, filter_eq_map π hπ]
  exact iter_expand_ren π hπ cands E E' hE _ _

theorem tiersOf_ren (cands : List Cand) (E E' : Cand → Cand → Bool) (hE : ∀ a b, E' (π a) (π b) = E a b) :
    tiersOf (cands.map π) E' = renR π (tiersOf cands E) := by
  unfold tiersOf
  rw [← scoreToRanking_ren]
  congr 1
  unfold renSc
  rw [List.map_map, List.map_map]
  apply List.map_congr_left; intro c _
  simp only [Function.comp_def, reachCount, reach_ren π hπ cands E E' hE, List.length_map]

/-- **C08 (neutrality of the dominating tiers).** -/
theorem C08_tiers_neutral (p : Profile) : dominatingTiers (renP π p) = renR π (dominatingTiers p) := by
  unfold dominatingTiers
  rw [graphCands_ren]
  exact tiersOf_ren π hπ _ (edge p) (edge (renP π p)) (edge_ren π hπ p)

theorem C08_condorcet_neutral (p : Profile) : condorcetWinner (renP π p) = (condorcetWinner p).map π := by
  unfold condorcetWinner
  rw [C08_tiers_neutral π hπ]
  cases dominatingTiers p with
  | nil => rfl
  | cons t rest =>
    cases t with
    | nil => rfl
    | cons c cs => cases cs <;> rfl

/-- **C08 (neutrality, DominatingSets).** -/
theorem C08_domsets_neutral (p : Profile) : dominatingSetsRun (renP π p) = (dominatingSetsRun p).map (renStates π) := by
  unfold dominatingSetsRun
  rw [rankingValid_ren, C08_tiers_neutral π hπ]
  split
  · rfl
  · cases dominatingTiers p with
    | nil => rfl
    | cons t rest =>
      simp only [renR, List.map_cons, Outcome.map_ok, renStates, List.map_nil]
      congr 2
      simp only [initialState, renP, renRS, renR, renSc, List.map_nil, List.isEmpty_map]
      split <;> rfl

/-- **C08 (neutrality, CondoBorda).** -/
theorem C08_condoborda_neutral (p : Profile) (m : Nat) (pri : List Cand) :
    condoBordaRun (renP π p) m (pri.map π) = (condoBordaRun p m pri).map (renStates π) := by
  unfold condoBordaRun
  rw [rankingValid_ren]
  split
  · rfl
  · rw [bordaScores_ren π hπ]
    cases bordaScores p with
    | ok sc0 =>
      simp only [Outcome.map_ok, Outcome.bind_ok]
      have hp : some (renP π p) = (some p).map (renP π) := rfl
      rw [C08_tiers_neutral π hπ, hp, electFromRanking_ren π hπ]
      cases electFromRanking pri (dominatingTiers p) m (some p) (some .borda) with
      | ok r =>
        simp only [Outcome.map_ok, Outcome.bind_ok]
        have he : (renER π r).elected.flatten = r.elected.flatten.map π := flatten_renR π r.elected
        rw [he, removeCand_ren π hπ, bordaScores_ren π hπ]
        cases bordaScores (removeCand r.elected.flatten p) with
        | ok sc1 =>
          simp only [Outcome.map_ok, Outcome.bind_ok, Outcome.pure_eq, renStates, List.map_cons, List.map_nil]
          have hc : (renP π p).cands = p.cands.map π := rfl
          rw [hc, initialState_ren]
          congr 2
          simp only [renRS, renER, renR, List.map_nil]
          congr 1
          cases r.tiebreak <;> rfl
        | raised e => rfl
        | oracleMismatch => rfl
        | outOfFuel => rfl
      | raised e => rfl
      | oracleMismatch => rfl
      | outOfFuel => rfl
    | raised e => rfl
    | oracleMismatch => rfl
    | outOfFuel => rfl

end
end VK
