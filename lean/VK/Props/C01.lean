/-
  Property C01 — every election terminates with exactly m winners and a consistent outcome.
-/
import VK.Model.Rules
import VK.Lemmas.Sum

namespace VK

/-- Single-round rules (Plurality, SNTV, Borda, the score rules) record exactly the initial state
and one round. -/
theorem C01_topM_two_states (p : Profile) (m : Nat) (tb : Option TB) (pri : List Cand)
    (score : Profile → Outcome (List (Cand × Rat))) (st : States)
    (h : topMRun p m tb pri score = .ok st) : st.length = 2 := by
  unfold topMRun at h
  cases h0 : score p with
  | ok sc0 =>
    simp only [h0, bind, Outcome.bind] at h
    cases h1 : electFromRanking pri (initialState p.cands (some sc0)).remaining m (some p) tb with
    | ok r =>
      simp only [h1] at h
      cases h2 : score (removeCand r.elected.flatten p) with
      | ok sc1 => simp only [h2, pure] at h; injection h with h; rw [← h]; rfl
      | raised e => simp [h2] at h
      | oracleMismatch => simp [h2] at h
      | outOfFuel => simp [h2] at h
    | raised e => simp [h1] at h
    | oracleMismatch => simp [h1] at h
    | outOfFuel => simp [h1] at h
  | raised e => simp [h0, bind, Outcome.bind] at h
  | oracleMismatch => simp [h0, bind, Outcome.bind] at h
  | outOfFuel => simp [h0, bind, Outcome.bind] at h

end VK
