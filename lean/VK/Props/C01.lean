/-
  Property C01 — every election terminates with exactly m winners and a consistent outcome.
-/
import VK.Model.Rules
import VK.Lemmas.Sum
import VK.Lemmas.STVRun
import VK.Lemmas.PSC
import VK.Lemmas.NoFuel
import VK.Lemmas.FpvLink
import VK.Props.C06

namespace VK

/-- Single-round rules (Plurality, SNTV, Borda, the score rules) record exactly the initial state
and one round. -/
theorem C01_topM_two_states (p : Profile) (m : Nat) (tb : Option TB) (pri : List Cand)
    (score : Profile → Outcome (List (Cand × Rat))) (st : States)
    (h : topMRun p m tb pri score = .ok st) : st.length = 2 := by
  unfold topMRun at h
  cases h0 : score p with
  | ok sc0 =>
    simp only [h0, bind, Outcome.bind] at h
    cases h1 : electFromRanking pri (initialState p.cands (some sc0)).remaining m (some p) tb with
    | ok r =>
      simp only [h1] at h
      cases h2 : score (removeCand r.elected.flatten p) with
      | ok sc1 => simp only [h2, pure] at h; injection h with h; rw [← h]; rfl
      | raised e => simp [h2] at h
      | oracleMismatch => simp [h2] at h
      | outOfFuel => simp [h2] at h
    | raised e => simp [h1] at h
    | oracleMismatch => simp [h1] at h
    | outOfFuel => simp [h1] at h
  | raised e => simp [h0, bind, Outcome.bind] at h
  | oracleMismatch => simp [h0, bind, Outcome.bind] at h
  | outOfFuel => simp [h0, bind, Outcome.bind] at h

/-! ### the STV family: exactly `m` winners and a partition at every round, for every configuration -/

/-- the loop keeps the invariant and can only finish with the seat counter at `m` -/
theorem stvLoop_inv (cfg : STVCfg) (init : Profile) (q : Int) (ω : STVOracle) (hi : init.cands.Nodup)
    (fuel : Nat) (S : CState) (prev : RoundState) (acc tr : List (RoundState × CState))
    (hcs : ∀ c ∈ S.hopeful, c ∈ init.cands) (inv : StvInv init.cands S prev (acc.map (·.1)))
    (h : stvLoop cfg init q ω fuel S prev acc = .ok tr) :
    ∃ Sf prevf, StvInv init.cands Sf prevf (tr.reverse.map (·.1)) ∧ Sf.nElected = cfg.m := by
  induction fuel generalizing S prev acc with
  | zero =>
    unfold stvLoop at h
    split at h
    · rename_i hm
      injection h with h; subst h
      exact ⟨S, prev, by simpa using inv, hm⟩
    · cases h
  | succ fuel ih =>
    unfold stvLoop at h
    split at h
    · rename_i hm
      injection h with h; subst h
      exact ⟨S, prev, by simpa using inv, hm⟩
    · cases hs : stvStep cfg init q ω (prev.round + 1) S prev with
      | ok Sr =>
        obtain ⟨S', r⟩ := Sr
        simp only [hs, bind, Outcome.bind] at h
        obtain ⟨inv', hsub, _⟩ := stvStep_inv cfg init q ω _ S S' prev r _ hi hcs inv hs
        exact ih S' r ((r, S') :: acc) (fun c hc => hcs c (hsub c hc)) (by simpa using inv') h
      | raised e => simp [hs, bind, Outcome.bind] at h
      | oracleMismatch => simp [hs, bind, Outcome.bind] at h
      | outOfFuel => simp [hs, bind, Outcome.bind] at h

theorem electedIn_reverse_length (l : List RoundState) : (electedIn l.reverse).length = (electedIn l).length := by
  unfold electedIn
  exact (((List.reverse_perm l).flatMap_right _).flatten).length_eq

/-- **C01 for STV / IRV / SequentialRCV (every quota, transfer rule, mode, tiebreak and oracle).**
Whenever a count finishes it has elected exactly `m` candidates, and at every recorded round the
candidates remaining after that round, the candidates elected up to it and the candidates eliminated
up to it list each candidate of the profile exactly once (`Good`, newest round first; since the
elected/eliminated lists only grow by appending, a candidate once elected or eliminated keeps that
status in all later rounds). -/
theorem C01_stv_exactly_m_and_partition (cfg : STVCfg) (p : Profile) (ω : STVOracle) (res : STVResult)
    (hc : p.cands.Nodup) (h : stvRun cfg p ω = .ok res) :
    (electedOf res.states).length = cfg.m ∧ Good p.cands res.states.reverse := by
  unfold stvRun at h
  split at h; · cases h
  split at h; · cases h
  split at h; · cases h
  cases h0 : firstPlaceVotes p with
  | ok sc0 =>
    simp only [h0, bind, Outcome.bind] at h
    cases hl : stvLoop cfg p (threshold cfg.quota cfg.m p.total) ω (p.cands.length + 2) (stvInitState p)
        (initialState p.cands (some sc0)) [(initialState p.cands (some sc0), stvInitState p)] with
    | ok tr =>
      simp only [hl, pure, Outcome.ok.injEq] at h
      subst h
      have hkeys : sc0.map (·.1) = p.cands := scoreFromRankings_keys p _ sc0 h0
      have hrem0 : (initialState p.cands (some sc0)).remaining.flatten.Perm p.cands := by
        have := scoreToRanking_perm sc0
        rw [hkeys] at this
        simpa [initialState] using this
      have inv0 : StvInv p.cands (stvInitState p) (initialState p.cands (some sc0))
          ([(initialState p.cands (some sc0), stvInitState p)].map (·.1)) := by
        refine ⟨hc, hrem0, ?_, ?_, ?_, trivial⟩
        · simp [stvInitState, electedIn, initialState]
        · simp [stvInitState, electedIn, eliminatedIn, initialState]
        · simpa [electedIn, eliminatedIn, initialState] using hrem0
      obtain ⟨Sf, prevf, invf, hm⟩ := stvLoop_inv cfg p _ ω hc _ _ _ _ tr (fun c hc => hc) inv0 hl
      refine ⟨?_, ?_⟩
      · show (electedIn (tr.map (·.1))).length = cfg.m
        rw [← hm, invf.count, List.map_reverse, electedIn_reverse_length]
      · show Good p.cands (tr.map (·.1)).reverse
        rw [← List.map_reverse]; exact invf.good
    | raised e => simp [hl] at h
    | oracleMismatch => simp [hl] at h
    | outOfFuel => simp [hl] at h
  | raised e => simp [h0, bind, Outcome.bind] at h
  | oracleMismatch => simp [h0, bind, Outcome.bind] at h
  | outOfFuel => simp [h0, bind, Outcome.bind] at h

/-- reading `Good`: for every recorded round `r` with the earlier rounds `older` the three lists
partition the candidates -/
theorem Good_suffix (cands : List Cand) (l : List RoundState) (hg : Good cands l) (r : RoundState)
    (older : List RoundState) (hs : (r :: older) <:+ l) :
    (r.remaining.flatten ++ electedIn (r :: older) ++ eliminatedIn (r :: older)).Perm cands := by
  induction l with
  | nil => simp at hs
  | cons x xs ih =>
    rcases List.suffix_cons_iff.1 hs with h | h
    · injection h with h1 h2; subst h1 h2; exact hg.1
    · exact ih hg.2 h

/-- consequence for duplicate-free candidate lists: at no round is a candidate in two of the three
lists, or twice in one -/
theorem C01_stv_round_lists_disjoint (cfg : STVCfg) (p : Profile) (ω : STVOracle) (res : STVResult)
    (hc : p.cands.Nodup) (h : stvRun cfg p ω = .ok res) (r : RoundState) (older : List RoundState)
    (hs : (r :: older) <:+ res.states.reverse) :
    (r.remaining.flatten ++ electedIn (r :: older) ++ eliminatedIn (r :: older)).Nodup :=
  (Good_suffix p.cands _ (C01_stv_exactly_m_and_partition cfg p ω res hc h).2 r older hs).nodup_iff.2 hc

/-- IRV is STV with one seat: exactly one winner -/
theorem C01_irv_one_winner (p : Profile) (quota : Quota) (tb : Option TB) (ω : STVOracle) (res : STVResult)
    (hc : p.cands.Nodup) (h : irvRun p quota tb ω = .ok res) : (electedOf res.states).length = 1 := by
  unfold irvRun at h
  exact (C01_stv_exactly_m_and_partition _ p ω res hc h).1

/-! ### termination: the fuel of the STV loop is never what ends a count -/

theorem stvLoop_noFuel (cfg : STVCfg) (init : Profile) (q : Int) (ω : STVOracle) (hi : init.cands.Nodup)
    (fuel : Nat) (S : CState) (prev : RoundState) (acc : List (RoundState × CState))
    (hcs : ∀ c ∈ S.hopeful, c ∈ init.cands) (inv : StvInv init.cands S prev (acc.map (·.1)))
    (hl : Linked S prev) (hfuel : S.hopeful.length + 1 ≤ fuel) :
    NoFuel (stvLoop cfg init q ω fuel S prev acc) := by
  induction fuel generalizing S prev acc with
  | zero => omega
  | succ fuel ih =>
    unfold stvLoop
    split
    · exact noFuel_ok _
    · rename_i hm
      cases hs : stvStep cfg init q ω (prev.round + 1) S prev with
      | ok Sr =>
        obtain ⟨S', r⟩ := Sr
        simp only [bind, Outcome.bind]
        obtain ⟨inv', hsub, _⟩ := stvStep_inv cfg init q ω _ S S' prev r _ hi hcs inv hs
        have hl' := stvStep_linked cfg init q ω _ S S' prev r hs
        have hdec := stvStep_decreases cfg init q ω _ S S' prev r _ hi hcs inv hl hm hs
        exact ih S' r ((r, S') :: acc) (fun c hc => hcs c (hsub c hc)) (by simpa using inv') hl' (by omega)
      | raised e => simp only [bind, Outcome.bind]; exact noFuel_raised e
      | oracleMismatch => simp only [bind, Outcome.bind]; exact noFuel_mismatch
      | outOfFuel => exact absurd hs (noFuel_stvStep cfg init q ω _ S prev)

/-- **C01 — termination.** For every profile of untied ranked ballots over its declared candidates,
every configuration and every oracle, an STV / IRV / SequentialRCV count never runs out of fuel: each
round removes a hopeful candidate, so the count ends (with a result or an exception) within
`#candidates + 1` rounds. -/
theorem C01_stv_terminates (cfg : STVCfg) (p : Profile) (ω : STVOracle) (quotaOk : Bool)
    (hc : p.cands.Nodup)
    (hne : ∀ b ∈ p.ballots, b.ranking ≠ [])
    (hsingle : ∀ b ∈ p.ballots, ∀ s ∈ b.ranking, s.length = 1)
    (hcast : ∀ b ∈ p.ballots, ∀ c ∈ b.ranking.flatten, c ∈ p.cands) :
    NoFuel (stvRun cfg p ω quotaOk) := by
  unfold stvRun
  split; · exact noFuel_raised _
  split; · exact noFuel_raised _
  split; · exact noFuel_raised _
  have hfpv := fpv_link p hne hsingle hcast
  simp only [hfpv, bind, Outcome.bind]
  set sc0 := tallies (stvInitState p).bs p.cands with hsc0
  set st0 := initialState p.cands (some sc0) with hst0
  have hrem0 : st0.remaining.flatten.Perm p.cands := by
    have := scoreToRanking_perm sc0
    rw [hsc0, tallies_keys] at this
    simpa [hst0, initialState] using this
  have inv0 : StvInv p.cands (stvInitState p) st0 ([(st0, stvInitState p)].map (·.1)) := by
    refine ⟨hc, hrem0, ?_, ?_, ?_, trivial⟩
    · simp [stvInitState, electedIn, hst0, initialState]
    · simp [stvInitState, electedIn, eliminatedIn, hst0, initialState]
    · simpa [electedIn, eliminatedIn, hst0, initialState] using hrem0
  have hl0 : Linked (stvInitState p) st0 :=
    ⟨by simp [hst0, initialState, hsc0, stvInitState], by simp [hst0, initialState]⟩
  have := stvLoop_noFuel cfg p (threshold cfg.quota cfg.m p.total) ω hc (p.cands.length + 2) (stvInitState p) st0
    [(st0, stvInitState p)] (fun c hc' => hc') inv0 hl0 (by simp [stvInitState])
  cases hloop : stvLoop cfg p (threshold cfg.quota cfg.m p.total) ω (p.cands.length + 2) (stvInitState p) st0
      [(st0, stvInitState p)] with
  | ok tr => exact noFuel_pure _
  | raised e => exact noFuel_raised e
  | oracleMismatch => exact noFuel_mismatch
  | outOfFuel => exact absurd hloop this

/-! ### single-round rules: exactly `m` winners, a partition, and no result across an unbroken tie -/

/-- what a successful "score, then elect the top m" run looks like -/
theorem topMRun_ok (p : Profile) (m : Nat) (tb : Option TB) (pri : List Cand)
    (score : Profile → Outcome (List (Cand × Rat))) (st : States)
    (h : topMRun p m tb pri score = .ok st) :
    ∃ sc0 r sc1, score p = .ok sc0 ∧
      electFromRanking pri (scoreToRanking sc0) m (some p) tb = .ok r ∧
      st = [initialState p.cands (some sc0),
            { round := 1, remaining := r.remaining, elected := r.elected, eliminated := [],
              tiebreaks := (match r.tiebreak with | some t => [t] | none => []), scores := sc1 }] := by
  unfold topMRun at h
  cases h0 : score p with
  | ok sc0 =>
    simp only [h0, bind, Outcome.bind] at h
    cases h1 : electFromRanking pri (initialState p.cands (some sc0)).remaining m (some p) tb with
    | ok r =>
      simp only [h1] at h
      cases h2 : score (removeCand r.elected.flatten p) with
      | ok sc1 =>
        simp only [h2, pure] at h; injection h with h
        exact ⟨sc0, r, sc1, rfl, h1, h.symm⟩
      | raised e => simp [h2] at h
      | oracleMismatch => simp [h2] at h
      | outOfFuel => simp [h2] at h
    | raised e => simp [h1] at h
    | oracleMismatch => simp [h1] at h
    | outOfFuel => simp [h1] at h
  | raised e => simp [h0, bind, Outcome.bind] at h
  | oracleMismatch => simp [h0, bind, Outcome.bind] at h
  | outOfFuel => simp [h0, bind, Outcome.bind] at h

/-- **C01 for the single-round rules** (Plurality, SNTV, Borda and — through the same body — the
score rules): a finished election elects exactly `m` candidates, nobody is eliminated, and the
elected and remaining groups of the final round list every candidate exactly once. `hkeys` says the
scoring function scores exactly the profile's candidates (true of `scoreFromRankings`:
`scoreFromRankings_keys`). -/
theorem C01_topM_count_partition (p : Profile) (m : Nat) (tb : Option TB) (pri : List Cand)
    (score : Profile → Outcome (List (Cand × Rat))) (st : States) (hc : p.cands.Nodup)
    (hkeys : ∀ sc, score p = .ok sc → sc.map (·.1) = p.cands)
    (h : topMRun p m tb pri score = .ok st) :
    (electedOf st).length = m ∧ eliminatedOf st = [] ∧
    ∃ last, st.getLast? = some last ∧ (last.elected.flatten ++ last.remaining.flatten).Perm p.cands := by
  obtain ⟨sc0, r, sc1, h0, h1, rfl⟩ := topMRun_ok p m tb pri score st h
  have hk := hkeys sc0 h0
  have hperm0 := scoreToRanking_perm sc0
  rw [hk] at hperm0
  have hnd : ∀ g ∈ scoreToRanking sc0, g.Nodup := scoreToRanking_groups_nodup sc0 (by rw [hk]; exact hc)
  have hsub : ∀ q, some p = some q → q.cands.Nodup ∧ ∀ g ∈ scoreToRanking sc0, ∀ c ∈ g, c ∈ q.cands := by
    intro q hq; injection hq with hq; subst hq
    exact ⟨hc, fun g hg c hcg => hperm0.mem_iff.1 (List.mem_flatten.2 ⟨g, hg, hcg⟩)⟩
  obtain ⟨hcount, hperm⟩ := electFromRanking_count pri _ m (some p) tb r hnd hsub h1
  refine ⟨?_, ?_, _, rfl, hperm.trans hperm0⟩
  · simp [electedOf, initialState, hcount]
  · simp [eliminatedOf, initialState]

/-- **No tiebreak, no result across a tie.** When no tiebreak was requested, a finished election
means the seat boundary falls between two score groups: the first `m` seats are exactly a union of
whole groups of equal score. (So candidates tied across the last seat make the rule raise instead —
`electLoop` returns `ValueError` there.) -/
theorem C01_topM_no_tiebreak_no_boundary_tie (p : Profile) (m : Nat) (pri : List Cand)
    (score : Profile → Outcome (List (Cand × Rat))) (st : States) (hc : p.cands.Nodup)
    (hkeys : ∀ sc, score p = .ok sc → sc.map (·.1) = p.cands)
    (h : topMRun p m none pri score = .ok st) :
    ∃ sc0 pre post, score p = .ok sc0 ∧ scoreToRanking sc0 = pre ++ post ∧ pre.flatten.length = m := by
  obtain ⟨sc0, r, sc1, h0, h1, rfl⟩ := topMRun_ok p m none pri score st h
  have hk := hkeys sc0 h0
  have hperm0 := scoreToRanking_perm sc0
  rw [hk] at hperm0
  have hnd : ∀ g ∈ scoreToRanking sc0, g.Nodup := scoreToRanking_groups_nodup sc0 (by rw [hk]; exact hc)
  have hsub : ∀ q, some p = some q → q.cands.Nodup ∧ ∀ g ∈ scoreToRanking sc0, ∀ c ∈ g, c ∈ q.cands := by
    intro q hq; injection hq with hq; subst hq
    exact ⟨hc, fun g hg c hcg => hperm0.mem_iff.1 (List.mem_flatten.2 ⟨g, hg, hcg⟩)⟩
  unfold electFromRanking at h1
  split at h1; · cases h1
  split at h1; · cases h1
  obtain ⟨pre, post, hrest, hcase⟩ := electLoop_spec pri (some p) none m [] _ r hnd hsub h1
  rcases hcase with ⟨_, h2, _, _⟩ | ⟨_, _, _, t, _, _, ht, _⟩
  · exact ⟨sc0, pre, post, h0, hrest, h2⟩
  · cases ht

/-- Plurality / SNTV instance -/
theorem C01_plurality (p : Profile) (m : Nat) (tb : Option TB) (pri : List Cand) (st : States)
    (hc : p.cands.Nodup) (h : pluralityRun p m tb pri = .ok st) :
    (electedOf st).length = m ∧ eliminatedOf st = [] ∧
    ∃ last, st.getLast? = some last ∧ (last.elected.flatten ++ last.remaining.flatten).Perm p.cands := by
  unfold pluralityRun at h
  split at h; · cases h
  exact C01_topM_count_partition p m tb pri firstPlaceVotes st hc
    (fun sc hsc => scoreFromRankings_keys p _ sc hsc) h

/-- Borda instance (any valid score vector) -/
theorem C01_borda (p : Profile) (m : Nat) (v : Option (List Rat)) (tb : Option TB) (pri : List Cand) (st : States)
    (hc : p.cands.Nodup) (h : bordaRun p m v tb pri = .ok st) :
    (electedOf st).length = m ∧ eliminatedOf st = [] ∧
    ∃ last, st.getLast? = some last ∧ (last.elected.flatten ++ last.remaining.flatten).Perm p.cands := by
  unfold bordaRun at h
  have key : ∀ vec, (if !validVector vec then Outcome.raised Exn.valueError
      else if !rankingValid p then Outcome.raised Exn.typeError
      else topMRun p m tb pri (fun q => scoreFromRankings q vec)) = .ok st →
      (electedOf st).length = m ∧ eliminatedOf st = [] ∧
      ∃ last, st.getLast? = some last ∧ (last.elected.flatten ++ last.remaining.flatten).Perm p.cands := by
    intro vec hv
    split at hv; · cases hv
    split at hv; · cases hv
    exact C01_topM_count_partition p m tb pri _ st hc
      (fun sc hsc => scoreFromRankings_keys p _ sc hsc) hv
  exact key _ h

/-! ### composites, pairwise rules and the dictator rules -/

theorem removeCand_cands_nodup (removed : List Cand) (p : Profile) (h : p.cands.Nodup) :
    (removeCand removed p).cands.Nodup := by
  unfold removeCand; exact h.filter _

/-- what the finalist stage returns -/
theorem finalistStage_ok (p : Profile) (k : Nat) (tb : Option TB) (pri : List Cand)
    (st0 st1 : RoundState) (p1 : Profile) (h : finalistStage p k tb pri = .ok (st0, st1, p1)) :
    st0.elected = [] ∧ st1.elected = [] ∧ ∃ removed, p1 = removeCand removed p := by
  unfold finalistStage at h
  cases h0 : firstPlaceVotes p with
  | ok sc0 =>
    simp only [h0, bind, Outcome.bind] at h
    cases h1 : pluralityRun p k tb pri with
    | ok pl =>
      simp only [h1] at h
      split at h
      · rename_i s0 s1
        cases h2 : firstPlaceVotes (removeCand s1.remaining.flatten p) with
        | ok sc1 =>
          simp only [h2, pure, Outcome.ok.injEq, Prod.mk.injEq] at h
          obtain ⟨e0, e1, e2⟩ := h
          subst e0 e1 e2
          exact ⟨by simp [initialState], rfl, _, rfl⟩
        | raised e => simp [h2] at h
        | oracleMismatch => simp [h2] at h
        | outOfFuel => simp [h2] at h
      · cases h
    | raised e => simp [h1] at h
    | oracleMismatch => simp [h1] at h
    | outOfFuel => simp [h1] at h
  | raised e => simp [h0, bind, Outcome.bind] at h
  | oracleMismatch => simp [h0, bind, Outcome.bind] at h
  | outOfFuel => simp [h0, bind, Outcome.bind] at h

/-- **TopTwo elects exactly one candidate.** -/
theorem C01_toptwo_one_winner (p : Profile) (tb : Option TB) (pri : Nat → List Cand) (st : States)
    (hc : p.cands.Nodup) (h : topTwoRun p tb pri = .ok st) : (electedOf st).length = 1 := by
  unfold topTwoRun at h
  split at h; · cases h
  cases h1 : finalistStage p 2 tb (pri 1) with
  | ok x =>
    obtain ⟨st0, st1, p1⟩ := x
    simp only [h1, bind, Outcome.bind] at h
    obtain ⟨e0, e1, removed, hp1⟩ := finalistStage_ok p 2 tb (pri 1) st0 st1 p1 h1
    cases h2 : pluralityRun p1 1 tb (pri 2) with
    | ok pl =>
      simp only [h2] at h
      split at h
      · rename_i s0 s
        simp only [pure, Outcome.ok.injEq] at h
        subst h
        have hp1n : p1.cands.Nodup := by rw [hp1]; exact removeCand_cands_nodup _ _ hc
        obtain ⟨hcount, _, _⟩ := C01_plurality p1 1 tb (pri 2) _ hp1n h2
        obtain ⟨sc0, r, sc1, _, _, hst⟩ := topMRun_ok p1 1 tb (pri 2) firstPlaceVotes _ (by
          unfold pluralityRun at h2; split at h2; · cases h2
          exact h2)
        injection hst with hs0 hrest
        injection hrest with hs1 _
        subst hs0 hs1
        simp only [electedOf, List.flatMap_cons, List.flatMap_nil, e0, e1, List.nil_append, List.append_nil] at hcount ⊢
        simpa [initialState] using hcount
      · cases h
    | raised e => simp [h2] at h
    | oracleMismatch => simp [h2] at h
    | outOfFuel => simp [h2] at h
  | raised e => simp [h1, bind, Outcome.bind] at h
  | oracleMismatch => simp [h1, bind, Outcome.bind] at h
  | outOfFuel => simp [h1, bind, Outcome.bind] at h

theorem electedOf_map_round (l : States) (f : RoundState → RoundState) (hf : ∀ s, (f s).elected = s.elected) :
    electedOf (l.map f) = electedOf l := by
  unfold electedOf
  induction l with
  | nil => rfl
  | cons x xs ih => simp only [List.map_cons, List.flatMap_cons, hf, List.flatten_append, ih]

/-- **Alaska elects exactly `m_2` candidates.** -/
theorem C01_alaska_exactly_m2 (p : Profile) (m1 m2 : Int) (cfg : STVCfg) (ω : STVOracle) (st : States)
    (hc : p.cands.Nodup) (h : alaskaRun p m1 m2 cfg ω = .ok st) : (electedOf st).length = m2.toNat := by
  unfold alaskaRun at h
  split at h; · cases h
  split at h; · cases h
  cases h1 : finalistStage p m1.toNat cfg.tiebreak (ω.pri 1) with
  | ok x =>
    obtain ⟨st0, st1, p1⟩ := x
    simp only [h1, bind, Outcome.bind] at h
    obtain ⟨e0, e1, removed, hp1⟩ := finalistStage_ok p _ _ _ st0 st1 p1 h1
    cases h2 : stvRun { cfg with m := m2.toNat } p1
        { pri := fun r => ω.pri (r + 1), sample := fun r => ω.sample (r + 1) } true with
    | ok res =>
      simp only [h2, pure, Outcome.ok.injEq] at h
      subst h
      have hp1n : p1.cands.Nodup := by rw [hp1]; exact removeCand_cands_nodup _ _ hc
      obtain ⟨hcount, _⟩ := C01_stv_exactly_m_and_partition _ p1 _ res hp1n h2
      -- the first STV state records nobody as elected
      have hfirst : ∀ s0 rest, res.states = s0 :: rest → s0.elected = [] := by
        intro s0 rest hs
        unfold stvRun at h2
        split at h2; · cases h2
        split at h2; · cases h2
        split at h2; · cases h2
        cases hf : firstPlaceVotes p1 with
        | ok sc0 =>
          simp only [hf, bind, Outcome.bind] at h2
          cases hl : stvLoop { cfg with m := m2.toNat } p1 (threshold cfg.quota m2.toNat p1.total)
              { pri := fun r => ω.pri (r + 1), sample := fun r => ω.sample (r + 1) } (p1.cands.length + 2) (stvInitState p1)
              (initialState p1.cands (some sc0)) [(initialState p1.cands (some sc0), stvInitState p1)] with
          | ok tr =>
            simp only [hl, pure, Outcome.ok.injEq] at h2
            -- the trace starts with the initial state (the accumulator is only extended at the front and reversed)
            have hhead : ∀ (fuel : Nat) (S : CState) (prev : RoundState) (acc tr' : List (RoundState × CState)) (x : RoundState × CState),
                stvLoop { cfg with m := m2.toNat } p1 (threshold cfg.quota m2.toNat p1.total)
                  { pri := fun r => ω.pri (r + 1), sample := fun r => ω.sample (r + 1) } fuel S prev acc = .ok tr' →
                acc.getLast? = some x → tr'.head? = some x := by
              intro fuel
              induction fuel with
              | zero =>
                intro S prev acc tr' x hl' hx
                unfold stvLoop at hl'
                split at hl'
                · injection hl' with hl'; subst hl'; rw [List.head?_reverse]; exact hx
                · cases hl'
              | succ fuel ih =>
                intro S prev acc tr' x hl' hx
                unfold stvLoop at hl'
                split at hl'
                · injection hl' with hl'; subst hl'; rw [List.head?_reverse]; exact hx
                · cases hs : stvStep { cfg with m := m2.toNat } p1 (threshold cfg.quota m2.toNat p1.total)
                      { pri := fun r => ω.pri (r + 1), sample := fun r => ω.sample (r + 1) } (prev.round + 1) S prev with
                  | ok Sr =>
                    simp only [hs, bind, Outcome.bind] at hl'
                    refine ih _ _ _ _ x hl' ?_
                    cases acc with
                    | nil => simp at hx
                    | cons a as => simpa [List.getLast?_cons_cons] using hx
                  | raised e => simp [hs, bind, Outcome.bind] at hl'
                  | oracleMismatch => simp [hs, bind, Outcome.bind] at hl'
                  | outOfFuel => simp [hs, bind, Outcome.bind] at hl'
            have := hhead _ _ _ _ tr (initialState p1.cands (some sc0), stvInitState p1) hl (by simp)
            rw [← h2] at hs
            simp only [STVResult.states] at hs
            cases tr with
            | nil => simp at this
            | cons t0 ts =>
              simp only [List.head?_cons, Option.some.injEq] at this
              simp only [List.map_cons, List.cons.injEq] at hs
              rw [← hs.1, this]; simp [initialState]
          | raised e => simp [hl] at h2
          | oracleMismatch => simp [hl] at h2
          | outOfFuel => simp [hl] at h2
        | raised e => simp [hf, bind, Outcome.bind] at h2
        | oracleMismatch => simp [hf, bind, Outcome.bind] at h2
        | outOfFuel => simp [hf, bind, Outcome.bind] at h2
      have hdrop : electedOf (res.states.drop 1) = electedOf res.states := by
        cases hs : res.states with
        | nil => rfl
        | cons s0 rest =>
          have := hfirst s0 rest hs
          simp [electedOf, this]
      show (electedOf (st0 :: st1 :: (res.states.drop 1).map (fun s => { s with round := s.round + 1 }))).length = m2.toNat
      have hmap := electedOf_map_round (res.states.drop 1) (fun s => { s with round := s.round + 1 }) (fun _ => rfl)
      have : electedOf (st0 :: st1 :: (res.states.drop 1).map (fun s => { s with round := s.round + 1 })) =
          electedOf ((res.states.drop 1).map (fun s => { s with round := s.round + 1 })) := by
        simp [electedOf, e0, e1]
      rw [this, hmap, hdrop]; exact hcount
    | raised e => simp [h2] at h
    | oracleMismatch => simp [h2] at h
    | outOfFuel => simp [h2] at h
  | raised e => simp [h1, bind, Outcome.bind] at h
  | oracleMismatch => simp [h1, bind, Outcome.bind] at h
  | outOfFuel => simp [h1, bind, Outcome.bind] at h

/-- the dictator loops: one winner per round, exactly `m` in the end, and the fuel `m + 1` is never
what stops them -/
theorem rdLoop_count (m : Nat) (ω : RDOracle) (fuel : Nat) (p : Profile) (n rnd : Nat) (acc : List RoundState)
    (st : States) (hn : n ≤ m) (hacc : (electedOf acc).length = n)
    (h : rdLoop m ω fuel p n rnd acc = .ok st) : (electedOf st).length = m := by
  induction fuel generalizing p n rnd acc with
  | zero =>
    unfold rdLoop at h
    split at h
    · injection h with h; subst h
      have : (electedOf acc.reverse).length = (electedOf acc).length := electedIn_reverse_length acc
      rw [this, hacc]; omega
    · cases h
  | succ fuel ih =>
    unfold rdLoop at h
    split at h
    · injection h with h; subst h
      have : (electedOf acc.reverse).length = (electedOf acc).length := electedIn_reverse_length acc
      rw [this, hacc]; omega
    · rename_i hlt
      cases hd : dictatorPick p (ω.pick rnd) (ω.pri rnd) with
      | ok wt =>
        obtain ⟨w, tbs⟩ := wt
        simp only [hd, bind, Outcome.bind] at h
        cases hs : firstPlaceVotes (removeCand [w] p) with
        | ok sc =>
          simp only [hs] at h
          refine ih _ _ _ _ (by omega) ?_ h
          simp only [electedOf, List.flatMap_cons, List.flatten_append, List.length_append] at hacc ⊢
          simp [hacc]; omega
        | raised e => simp [hs] at h
        | oracleMismatch => simp [hs] at h
        | outOfFuel => simp [hs] at h
      | raised e => simp [hd, bind, Outcome.bind] at h
      | oracleMismatch => simp [hd, bind, Outcome.bind] at h
      | outOfFuel => simp [hd, bind, Outcome.bind] at h

/-- **RandomDictator elects exactly `m` candidates**, for every oracle -/
theorem C01_random_dictator_exactly_m (p : Profile) (m : Int) (ω : RDOracle) (st : States)
    (h : randomDictatorRun p m ω = .ok st) : (electedOf st).length = m.toNat := by
  unfold randomDictatorRun at h
  split at h; · cases h
  split at h; · cases h
  cases h0 : firstPlaceVotes p with
  | ok sc0 =>
    simp only [h0, bind, Outcome.bind] at h
    exact rdLoop_count m.toNat ω _ p 0 1 _ st (Nat.zero_le _) (by simp [electedOf, initialState]) h
  | raised e => simp [h0, bind, Outcome.bind] at h
  | oracleMismatch => simp [h0, bind, Outcome.bind] at h
  | outOfFuel => simp [h0, bind, Outcome.bind] at h

theorem brdLoop_count (m : Nat) (ω : RDOracle) (fuel : Nat) (p : Profile) (scores : List (Cand × Rat))
    (n rnd : Nat) (acc : List RoundState)
    (st : States) (hn : n ≤ m) (hacc : (electedOf acc).length = n)
    (h : brdLoop m ω fuel p scores n rnd acc = .ok st) : (electedOf st).length = m := by
  induction fuel generalizing p scores n rnd acc with
  | zero =>
    unfold brdLoop at h
    split at h
    · injection h with h; subst h
      have : (electedOf acc.reverse).length = (electedOf acc).length := electedIn_reverse_length acc
      rw [this, hacc]; omega
    · cases h
  | succ fuel ih =>
    unfold brdLoop at h
    split at h
    · injection h with h; subst h
      have : (electedOf acc.reverse).length = (electedOf acc).length := electedIn_reverse_length acc
      rw [this, hacc]; omega
    · rename_i hlt
      cases hd : boostedPick p scores ω rnd with
      | ok wt =>
        obtain ⟨w, tbs⟩ := wt
        simp only [hd, bind, Outcome.bind] at h
        cases hs : firstPlaceVotes (removeCand [w] p) with
        | ok sc =>
          simp only [hs] at h
          refine ih _ _ _ _ _ (by omega) ?_ h
          simp only [electedOf, List.flatMap_cons, List.flatten_append, List.length_append] at hacc ⊢
          simp [hacc]; omega
        | raised e => simp [hs] at h
        | oracleMismatch => simp [hs] at h
        | outOfFuel => simp [hs] at h
      | raised e => simp [hd, bind, Outcome.bind] at h
      | oracleMismatch => simp [hd, bind, Outcome.bind] at h
      | outOfFuel => simp [hd, bind, Outcome.bind] at h

/-- **BoostedRandomDictator elects exactly `m` candidates**, for every oracle -/
theorem C01_boosted_exactly_m (p : Profile) (m : Int) (ω : RDOracle) (st : States)
    (h : boostedRun p m ω = .ok st) : (electedOf st).length = m.toNat := by
  unfold boostedRun at h
  split at h; · cases h
  split at h; · cases h
  cases h0 : firstPlaceVotes p with
  | ok sc0 =>
    simp only [h0, bind, Outcome.bind] at h
    exact brdLoop_count m.toNat ω _ p sc0 0 1 _ st (Nat.zero_le _) (by simp [electedOf, initialState]) h
  | raised e => simp [h0, bind, Outcome.bind] at h
  | oracleMismatch => simp [h0, bind, Outcome.bind] at h
  | outOfFuel => simp [h0, bind, Outcome.bind] at h

/-- **CondoBorda elects exactly `m` candidates** (whole tiers, then Borda inside the straddling tier) -/
theorem C01_condoborda_exactly_m (p : Profile) (m : Nat) (pri : List Cand) (st : States)
    (hc : p.cands.Nodup) (h : condoBordaRun p m pri = .ok st) : (electedOf st).length = m := by
  unfold condoBordaRun at h
  split at h; · cases h
  cases h0 : bordaScores p with
  | ok sc0 =>
    simp only [h0, bind, Outcome.bind] at h
    cases h1 : electFromRanking pri (dominatingTiers p) m (some p) (some .borda) with
    | ok r =>
      simp only [h1] at h
      cases h2 : bordaScores (removeCand r.elected.flatten p) with
      | ok sc1 =>
        simp only [h2, pure, Outcome.ok.injEq] at h
        subst h
        have hperm := C06_tiers_partition p
        have hgn : (graphCands p).Nodup := by unfold graphCands; split; exact List.nodup_nil; exact hc
        have hnn : (dominatingTiers p).flatten.Nodup := hperm.nodup_iff.2 hgn
        have hnd : ∀ g ∈ dominatingTiers p, g.Nodup := fun g hg => (List.nodup_flatten.1 hnn).1 g hg
        have hsub : ∀ q, some p = some q → q.cands.Nodup ∧ ∀ g ∈ dominatingTiers p, ∀ c ∈ g, c ∈ q.cands := by
          intro q hq; injection hq with hq; subst hq
          refine ⟨hc, fun g hg c hcg => ?_⟩
          have : c ∈ graphCands p := hperm.mem_iff.1 (List.mem_flatten.2 ⟨g, hg, hcg⟩)
          unfold graphCands at this; split at this
          · cases this
          · exact this
        have := (electFromRanking_count pri _ m (some p) (some .borda) r hnd hsub h1).1
        simpa [electedOf, initialState] using this
      | raised e => simp [h2] at h
      | oracleMismatch => simp [h2] at h
      | outOfFuel => simp [h2] at h
    | raised e => simp [h1] at h
    | oracleMismatch => simp [h1] at h
    | outOfFuel => simp [h1] at h
  | raised e => simp [h0, bind, Outcome.bind] at h
  | oracleMismatch => simp [h0, bind, Outcome.bind] at h
  | outOfFuel => simp [h0, bind, Outcome.bind] at h

/-! non-vacuity: an STV count and a Plurality election that finish -/
def exBallots : List Ballot := [Ballot.mk [[0], [1]] 3 [], Ballot.mk [[1]] 2 []]
def exProfile : Profile := Profile.mk exBallots [0, 1]
example : (stvRun { m := 1 } exProfile {}).isOk = true := by decide +kernel
example : (pluralityRun exProfile 1 none []).isOk = true := by decide +kernel

end VK
