/-
  Property C05 — score-ballot elections enforce their limits and elect the top m totals.
-/
import VK.Props.C04Top
import VK.Model.Rules
import VK.Lemmas.Sum

namespace VK

/-- **A ballot passes the validator iff it carries scores, every score lies in `[0, L]`, and —
when a budget is given — the scores sum to at most the budget** (all boundaries inclusive). -/
theorem C05_ballot_ok_iff (L : Rat) (k : Option Rat) (b : Ballot) :
    ratingBallotOk L k b = true ↔
      b.scores ≠ [] ∧ (∀ cs ∈ b.scores, 0 ≤ cs.2 ∧ cs.2 ≤ L) ∧
      (∀ kk, k = some kk → rsum (b.scores.map (·.2)) ≤ kk) := by
  unfold ratingBallotOk
  cases k with
  | none =>
    simp only [Bool.and_true, Bool.and_eq_true, Bool.not_eq_true', List.isEmpty_eq_false_iff,
      List.all_eq_true, decide_eq_true_eq]
    constructor
    · rintro ⟨⟨h1, h2⟩, h3⟩
      exact ⟨h1, fun cs h => ⟨h3 cs h, h2 cs h⟩, fun kk hk => by cases hk⟩
    · rintro ⟨h1, h2, _⟩
      exact ⟨⟨h1, fun cs h => (h2 cs h).2⟩, fun cs h => (h2 cs h).1⟩
  | some kk =>
    simp only [Bool.and_eq_true, Bool.not_eq_true', List.isEmpty_eq_false_iff,
      List.all_eq_true, decide_eq_true_eq]
    constructor
    · rintro ⟨⟨⟨h1, h2⟩, h3⟩, h4⟩
      exact ⟨h1, fun cs h => ⟨h3 cs h, h2 cs h⟩, fun k' hk => by cases hk; exact h4⟩
    · rintro ⟨h1, h2, h3⟩
      exact ⟨⟨⟨h1, fun cs h => (h2 cs h).2⟩, fun cs h => (h2 cs h).1⟩, h3 kk rfl⟩

/-- **A profile all of whose ballots pass the validator is accepted**: the run is exactly the
"score, then elect the top m" computation on the ballot scores. (Argument errors — `m ≤ 0`,
`L ≤ 0`, bad `k` — are ValueError and come first, see C20.) -/
theorem C05_accept (p : Profile) (m : Int) (L : Rat) (k : Option Rat) (tb : Option TB)
    (pri : List Cand) (hargs : ratingArgsOk m L k = true)
    (hall : ∀ b ∈ p.ballots, ratingBallotOk L (effectiveBudget k) b = true) :
    generalRatingRun p m L k tb pri = topMRun p m.toNat tb pri scoreFromBallotScores := by
  unfold generalRatingRun
  have : p.ballots.all (ratingBallotOk L (effectiveBudget k)) = true := by
    simpa [List.all_eq_true] using hall
  simp [hargs, this]

/-- rejection of an invalid ballot is a TypeError, whatever the rest of the profile looks like -/
theorem C05_reject_is_typeError (p : Profile) (m : Int) (L : Rat) (k : Option Rat) (tb : Option TB)
    (pri : List Cand) (hargs : ratingArgsOk m L k = true) (b : Ballot) (hb : b ∈ p.ballots)
    (hbad : ratingBallotOk L (effectiveBudget k) b = false) :
    generalRatingRun p m L k tb pri = .raised .typeError := by
  unfold generalRatingRun
  have : p.ballots.all (ratingBallotOk L (effectiveBudget k)) = false := by
    rw [List.all_eq_false]; exact ⟨b, hb, by simp [hbad]⟩
  simp [hargs, this]

/-- **Totals.** When `score_profile_from_ballot_scores` returns, each declared candidate's total is
the sum over ballots of weight × (that ballot's score for the candidate). -/
theorem C05_totals (p : Profile) (sc : List (Cand × Rat)) (h : scoreFromBallotScores p = .ok sc) :
    sc = p.cands.map (fun c => (c, rsum (p.ballots.map (fun b =>
      rsum ((b.scores.filter (fun cs => cs.1 = c)).map (·.2)) * b.weight)))) := by
  unfold scoreFromBallotScores at h
  split at h; · cases h
  split at h; · cases h
  injection h with h; exact h.symm

/-- the subclasses are the documented instances of the general rule -/
theorem C05_subclass_params (p : Profile) (m : Int) (L : Rat) (k : Option Rat) (tb : Option TB)
    (pri : List Cand) :
    scoreRuleRun .rating p m L k tb pri = generalRatingRun p m L none tb pri ∧
    scoreRuleRun .approval p m L k tb pri = generalRatingRun p m 1 none tb pri ∧
    scoreRuleRun .cumulative p m L k tb pri = generalRatingRun p m m (some m) tb pri ∧
    (∀ kk, k = some kk → kk ≤ m →
      scoreRuleRun .limited p m L k tb pri = generalRatingRun p m kk (some kk) tb pri) ∧
    (∀ kk, k = some kk → (m : Rat) < kk → scoreRuleRun .limited p m L k tb pri = .raised .valueError) ∧
    (k = none → scoreRuleRun .bloc p m L k tb pri = generalRatingRun p m 1 (some m) tb pri) := by
  refine ⟨rfl, rfl, rfl, ?_, ?_, ?_⟩
  · intro kk hk hle; subst hk
    simp [scoreRuleRun, not_lt.2 hle]
  · intro kk hk hlt; subst hk
    simp [scoreRuleRun, hlt]
  · intro hk; subst hk; simp [scoreRuleRun, effectiveBudget]

/-- non-vacuity: a ballot at both limits passes, one 1/10^6 above the budget does not -/
example : ratingBallotOk 1 (some 2) { scores := [(0, 1), (1, 1)] } = true ∧
    ratingBallotOk 1 (some 2) { scores := [(0, 1), (1, 1), (2, 1 / 1000000)] } = false := by
  decide +kernel

end VK
