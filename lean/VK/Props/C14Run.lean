/-
  C14, end to end over the replay layer: whatever log of primitive calls `Gen.runPL` / `Gen.runCumulative`
  accept, the ballots they return have the documented shape (statements about the model function the
  correspondence check runs against the implementation's recorded calls, not only about the pure builders).
-/
import VK.Props.C14
import VK.Lemmas.GenHoare

namespace VK
namespace Gen

theorem hasDup_false_nodup (l : List Cand) (h : hasDup l = false) : l.Nodup := by
  induction l with
  | nil => simp
  | cons x xs ih =>
    simp only [hasDup, Bool.or_eq_false_iff] at h
    rw [List.nodup_cons]
    refine ⟨?_, ih h.2⟩
    intro hx
    have := h.1
    simp [hx] at this

/-- what an accepted `np.random.choice(pop, k, p=…, replace=False)` record guarantees -/
theorem expectChoice_spec (exp : List (Cand × Rat)) (k : Nat) (what : String) :
    Ensures (expectChoice exp k false what)
      (fun res => res.length = k ∧ res.Nodup ∧ ∀ c ∈ res, ∃ e ∈ exp, e.1 = c ∧ 0 < e.2) := by
  unfold expectChoice
  refine ensures_bind _ _ (fun _ => True) _ (ensures_next what) ?_
  intro c _
  cases c with
  | choice pop p k' rep res =>
    cases p with
    | none => exact ensures_bad _ _
    | some p =>
      cases k' with
      | none => exact ensures_bad _ _
      | some k' =>
        simp only
        refine ensures_ite _ _ _ _ (fun _ => ensures_bad _ _) (fun _ => ?_)
        refine ensures_ite _ _ _ _ (fun _ => ensures_bad _ _) (fun _ => ?_)
        refine ensures_ite _ _ _ _ (fun _ => ensures_bad _ _) (fun _ => ?_)
        refine ensures_ite _ _ _ _ (fun _ => ensures_bad _ _) (fun h4 => ?_)
        refine ensures_ite _ _ _ _ (fun _ => ensures_bad _ _) (fun h5 => ?_)
        refine ensures_ite _ _ _ _ (fun _ => ensures_bad _ _) (fun h6 => ?_)
        refine ensures_pure _ _ ⟨by simpa using h4, ?_, ?_⟩
        · apply hasDup_false_nodup
          simpa using h6
        · intro c hc
          have h5' : (res.all fun c => exp.any fun e => decide (e.1 = c) && decide (0 < e.2)) = true := by
            simpa using h5
          have := (List.all_eq_true.1 h5') c hc
          obtain ⟨e, he, h⟩ := List.any_eq_true.1 this
          simp only [Bool.and_eq_true, decide_eq_true_eq] at h
          exact ⟨e, he, h.1, h.2⟩
  | _ => exact ensures_bad _ _

/-- with replacement: the right number of draws, all from the positive-support candidates -/
theorem expectChoice_spec_replace (exp : List (Cand × Rat)) (k : Nat) (what : String) :
    Ensures (expectChoice exp k true what)
      (fun res => res.length = k ∧ ∀ c ∈ res, ∃ e ∈ exp, e.1 = c ∧ 0 < e.2) := by
  unfold expectChoice
  refine ensures_bind _ _ (fun _ => True) _ (ensures_next what) ?_
  intro c _
  cases c with
  | choice pop p k' rep res =>
    cases p with
    | none => exact ensures_bad _ _
    | some p =>
      cases k' with
      | none => exact ensures_bad _ _
      | some k' =>
        simp only
        refine ensures_ite _ _ _ _ (fun _ => ensures_bad _ _) (fun _ => ?_)
        refine ensures_ite _ _ _ _ (fun _ => ensures_bad _ _) (fun _ => ?_)
        refine ensures_ite _ _ _ _ (fun _ => ensures_bad _ _) (fun _ => ?_)
        refine ensures_ite _ _ _ _ (fun _ => ensures_bad _ _) (fun h4 => ?_)
        refine ensures_ite _ _ _ _ (fun _ => ensures_bad _ _) (fun h5 => ?_)
        refine ensures_ite _ _ _ _ (fun _ => ensures_bad _ _) (fun _ => ?_)
        refine ensures_pure _ _ ⟨by simpa using h4, ?_⟩
        intro c hc
        have h5' : (res.all fun c => exp.any fun e => decide (e.1 = c) && decide (0 < e.2)) = true := by
          simpa using h5
        have := (List.all_eq_true.1 h5') c hc
        obtain ⟨e, he, h⟩ := List.any_eq_true.1 this
        simp only [Bool.and_eq_true, decide_eq_true_eq] at h
        exact ⟨e, he, h.1, h.2⟩
  | _ => exact ensures_bad _ _

/-- an accepted unweighted draw without replacement: `k` distinct members of the population -/
theorem expectChoiceU_spec (exp : List Cand) (k : Nat) (what : String) :
    Ensures (expectChoiceU exp k what) (fun res => res.length = k ∧ res.Nodup ∧ ∀ c ∈ res, c ∈ exp) := by
  unfold expectChoiceU
  refine ensures_bind _ _ (fun _ => True) _ (ensures_next what) ?_
  intro c _
  cases c with
  | choice pop p k' rep res =>
    cases p with
    | some p => exact ensures_bad _ _
    | none =>
      cases k' with
      | none => exact ensures_bad _ _
      | some k' =>
        cases rep with
        | true => exact ensures_bad _ _
        | false =>
          simp only
          refine ensures_ite _ _ _ _ (fun _ => ensures_bad _ _) (fun _ => ?_)
          refine ensures_ite _ _ _ _ (fun _ => ensures_bad _ _) (fun _ => ?_)
          refine ensures_ite _ _ _ _ (fun _ => ensures_bad _ _) (fun h3 => ?_)
          simp only [Bool.or_eq_true, decide_eq_true_eq, not_or, Bool.not_eq_true', Bool.not_eq_false',
            Bool.not_eq_true] at h3
          obtain ⟨⟨h31, h32⟩, h33⟩ := h3
          refine ensures_pure _ _ ⟨by simpa using h31, hasDup_false_nodup _ h32, ?_⟩
          intro c hc
          have h33' : (res.all fun x => exp.contains x) = true := by simpa using h33
          have := (List.all_eq_true.1 h33') c hc
          simpa using this
  | _ => exact ensures_bad _ _

/-- the apportionment record is accepted only when it meets the library's contract -/
theorem expectApportion_spec (props : List Rat) (n : Nat) :
    Ensures (expectApportion props n) (fun res => res.length = props.length ∧ sumNat res = n) := by
  unfold expectApportion
  refine ensures_bind _ _ (fun _ => True) _ (ensures_next _) ?_
  intro c _
  cases c with
  | apportion props' n' res =>
    simp only
    refine ensures_ite _ _ _ _ (fun _ => ensures_bad _ _) (fun _ => ?_)
    refine ensures_ite _ _ _ _ (fun _ => ensures_bad _ _) (fun _ => ?_)
    refine ensures_ite _ _ _ _ (fun _ => ensures_bad _ _) (fun h3 => ?_)
    simp only [Bool.or_eq_true, decide_eq_true_eq, not_or, Decidable.not_not] at h3
    exact ensures_pure _ _ h3
  | _ => exact ensures_bad _ _

theorem repeatM_spec {α} (n : Nat) (f : Nat → GenM α) (Q : α → Prop) (h : ∀ i, Ensures (f i) Q) :
    Ensures (repeatM n f) (fun out => out.length = n ∧ ∀ b ∈ out, Q b) := by
  unfold repeatM
  refine ensures_weaken _ _ _ (ensures_mapM f Q (List.range n) (fun i _ => h i)) ?_
  intro out ho
  exact ⟨by simpa using ho.1, ho.2⟩

theorem forBlocs_spec {α} (P : Params) (counts : List Nat) (f : Nat → Nat → GenM α) (Q : Nat → Nat → α → Prop)
    (h : ∀ b cnt, Ensures (f b cnt) (Q b cnt)) :
    Ensures (forBlocs P counts f) (fun out => List.Forall₂ (fun bc o => Q bc.1 bc.2 o) ((List.range P.nb).zip counts) out) := by
  unfold forBlocs
  exact ensures_mapM2 _ _ _ (fun bc _ => h bc.1 bc.2)

/-- one list of exactly `cnt` items per bloc adds up to the apportioned total -/
theorem blocs_total {α} (nb : Nat) (counts : List Nat) (out : List (List α)) (Q : α → Prop)
    (hlen : counts.length = nb)
    (h : List.Forall₂ (fun (bc : Nat × Nat) (o : List α) => o.length = bc.2 ∧ ∀ b ∈ o, Q b) ((List.range nb).zip counts) out) :
    out.flatten.length = sumNat counts ∧ ∀ o ∈ out, ∀ b ∈ o, Q b := by
  have key : ∀ (l : List (Nat × Nat)) (out : List (List α)),
      List.Forall₂ (fun (bc : Nat × Nat) (o : List α) => o.length = bc.2 ∧ ∀ b ∈ o, Q b) l out →
      out.flatten.length = sumNat (l.map (·.2)) ∧ ∀ o ∈ out, ∀ b ∈ o, Q b := by
    intro l out hf
    induction hf with
    | nil => simp [sumNat]
    | cons hx _ ih =>
      refine ⟨?_, ?_⟩
      · simp only [List.flatten_cons, List.length_append, List.map_cons, sumNat_cons, ih.1, hx.1]
      · intro o ho
        rcases List.mem_cons.1 ho with rfl | ho
        · exact hx.2
        · exact ih.2 o ho
  have := key _ _ h
  rwa [List.map_snd_zip (by simp [hlen])] at this

/-- shape of a Plackett–Luce ballot of the model -/
def PLShape (support : List (Cand × Rat)) (zeros : List Cand) (b : Ballot) : Prop :=
  b.weight = 1 ∧ ∃ d t, b = plBallot d t ∧ d.Nodup ∧ t.Nodup ∧
    (∀ c ∈ d, ∃ e ∈ support, e.1 = c ∧ 0 < e.2) ∧ (∀ c ∈ t, c ∈ zeros)

theorem plBallot_weight (d t : List Cand) : (plBallot d t).weight = 1 := rfl

/-- **Plackett–Luce generators, end to end.** Whatever log `runPL` accepts: each bloc gets exactly its
apportioned number of ballots, which add up to `N`; every ballot has weight 1, ranks distinct
candidates of positive support one per position, and ends in at most one tied group of distinct
zero-support candidates. -/
theorem C14_runPL (P : Params) (L : Nat) (hnb : P.nb = P.props.length) :
    Ensures (runPL P L) (fun bb =>
      bb.flatten.length = P.N ∧ (∀ b ∈ bb.flatten, b.weight = 1) ∧
      ∀ bs ∈ bb, ∀ b ∈ bs, ∃ sup zs, PLShape sup zs b) := by
  unfold runPL
  refine ensures_bind _ _ _ _ (expectApportion_spec P.props P.N) ?_
  intro counts hc
  refine ensures_weaken _ _ _ (forBlocs_spec P counts _
    (fun _ cnt o => o.length = cnt ∧ ∀ b ∈ o, ∃ sup zs, PLShape sup zs b) ?_) ?_
  · intro b cnt
    refine ensures_bind _ _ (fun _ => True) _ (fun _ _ _ _ => trivial) ?_
    intro iv _
    refine repeatM_spec cnt _ _ ?_
    intro i
    refine ensures_bind _ _ _ _ (expectChoice_spec iv.interval _ _) ?_
    intro d hd
    have fin : ∀ t : List Cand, (t.Nodup ∧ ∀ c ∈ t, c ∈ iv.zeros) →
        Ensures (pure (plBallot d t) : GenM Ballot) (fun b => ∃ sup zs, PLShape sup zs b) := fun t ht =>
      ensures_pure _ _ ⟨iv.interval, iv.zeros, rfl, d, t, rfl, hd.2.1, ht.1, hd.2.2, ht.2⟩
    simp only
    refine ensures_ite _ _ _ _ (fun _ => ?_) (fun _ => ?_)
    · refine ensures_bind _ _ _ _ (expectChoiceU_spec _ _ _) ?_
      intro t ht
      exact fin t ⟨ht.2.1, ht.2.2⟩
    · refine ensures_bind _ _ (fun (t : List Cand) => t = []) _ (ensures_pure _ _ rfl) ?_
      intro t ht
      subst ht
      exact fin [] ⟨List.nodup_nil, by simp⟩
  · intro out ho
    have := blocs_total P.nb counts out _ (by rw [hc.1, hnb]) ho
    refine ⟨by rw [this.1, hc.2], ?_, this.2⟩
    intro b hb
    obtain ⟨o, ho', hbo⟩ := List.mem_flatten.1 hb
    obtain ⟨_, _, hs⟩ := this.2 o ho' b hbo
    exact hs.1

/-- **Cumulative generator, end to end**: `N` ballots of weight 1, each distributing exactly `votes`
points over candidates of positive support. -/
theorem C14_runCumulative (P : Params) (hnb : P.nb = P.props.length) :
    Ensures (runCumulative P) (fun bb =>
      bb.flatten.length = P.N ∧ ∀ bs ∈ bb, ∀ b ∈ bs, ∃ d : List Cand, b = cumulativeBallot d ∧ d.length = P.votes) := by
  unfold runCumulative
  refine ensures_bind _ _ _ _ (expectApportion_spec P.props P.N) ?_
  intro counts hc
  refine ensures_weaken _ _ _ (forBlocs_spec P counts _
    (fun _ cnt o => o.length = cnt ∧ ∀ b ∈ o, ∃ d : List Cand, b = cumulativeBallot d ∧ d.length = P.votes) ?_) ?_
  · intro b cnt
    refine ensures_bind _ _ (fun _ => True) _ (fun _ _ _ _ => trivial) ?_
    intro iv _
    refine repeatM_spec cnt _ _ ?_
    intro i
    refine ensures_bind _ _ _ _ (expectChoice_spec_replace iv.interval _ _) ?_
    intro d hd
    exact ensures_pure _ _ ⟨d, rfl, hd.1⟩
  · intro out ho
    have := blocs_total P.nb counts out _ (by rw [hc.1, hnb]) ho
    exact ⟨by rw [this.1, hc.2], this.2⟩

theorem ensures_get_tail {α} (out : α) (Q : α → Prop) (h : Q out) :
    Ensures (do match (← get) with
      | [] => pure out
      | c :: _ => bad s!"unexpected extra call {c.name}" : GenM α) Q := by
  intro s a s' hx
  cases s with
  | nil =>
    simp only [bind, StateT.bind, get, getThe, MonadStateOf.get, StateT.get, StateT.run, pure, Except.pure, Except.bind, StateT.pure] at hx
    injection hx with hx
    injection hx with h1 _
    rw [← h1]; exact h
  | cons c cs =>
    simp [bind, StateT.bind, get, getThe, MonadStateOf.get, StateT.get, StateT.run, pure, Except.pure, Except.bind, bad, throw,
      throwThe, MonadExceptOf.throw, StateT.lift] at hx

/-- the wrapper `Gen.run` puts around every bloc generator: count the pool, insist the log is used up -/
def wrapBlocs (m : GenM (List (List Ballot))) : GenM GenOut := do
  let bb ← m
  let o : GenOut := { byBloc := bb.map condense, agg := condense bb.flatten }
  match (← get) with
  | [] => pure o
  | c :: _ => bad s!"unexpected extra call {c.name}"

theorem wrapBlocs_total (N : Nat) (m : GenM (List (List Ballot)))
    (hm : Ensures m (fun bb => bb.flatten.length = N ∧ ∀ b ∈ bb.flatten, b.weight = 1)) :
    Ensures (wrapBlocs m) (fun out => totalWeight out.agg = N ∧ (∀ b ∈ out.agg, ∃ n : Nat, 0 < n ∧ b.weight = (n : Rat)) ∧
      totalWeight out.agg = rsum (out.byBloc.map totalWeight)) := by
  unfold wrapBlocs
  refine ensures_bind _ _ _ _ hm ?_
  intro bb hbb
  refine ensures_get_tail _ _ ⟨?_, ?_, ?_⟩
  · simp only
    rw [C14_pool_total _ hbb.2, hbb.1]
  · exact C14_pool_weights_pos_int _ hbb.2
  · simp only [List.map_map, Function.comp_def]
    exact C14_sum_profiles_total bb

theorem run_of_wrap (P : Params) (log : List Call) (out : GenOut) (m : GenM (List (List Ballot))) (Q : GenOut → Prop)
    (hrun : run P log = (match (wrapBlocs m).run log with | .ok (o, _) => .ok o | .error e => .error e))
    (hm : Ensures (wrapBlocs m) Q) (h : run P log = .ok out) : Q out := by
  rw [hrun] at h
  split at h
  · rename_i o s' hr
    injection h with h
    subst h
    exact hm log o s' hr
  · cases h

/-- **The profile returned for the Plackett–Luce kinds.** If `Gen.run` accepts a log for kind `pl` or
`short_pl`, the aggregate profile has total weight exactly `N`, positive whole-number weights, and is
the sum of the per-bloc profiles. -/
theorem C14_run_pl (P : Params) (log : List Call) (out : GenOut) (hk : P.kind = "pl" ∨ P.kind = "short_pl")
    (hnb : P.nb = P.props.length) (h : run P log = .ok out) :
    totalWeight out.agg = P.N ∧ (∀ b ∈ out.agg, ∃ n : Nat, 0 < n ∧ b.weight = (n : Rat)) ∧
      totalWeight out.agg = rsum (out.byBloc.map totalWeight) := by
  have tot : ∀ L, Ensures (runPL P L) (fun bb => bb.flatten.length = P.N ∧ ∀ b ∈ bb.flatten, b.weight = 1) :=
    fun L => ensures_weaken _ _ _ (C14_runPL P L hnb) (fun bb hbb => ⟨hbb.1, hbb.2.1⟩)
  rcases hk with hk | hk
  · refine run_of_wrap P log out (runPL P P.slates.flatten.length) _ ?_ (wrapBlocs_total P.N _ (tot _)) h
    unfold run wrapBlocs
    simp only [hk]
    simp [List.contains, List.elem]
    rfl
  · refine run_of_wrap P log out (runPL P P.L) _ ?_ (wrapBlocs_total P.N _ (tot _)) h
    unfold run wrapBlocs
    simp only [hk]
    simp [List.contains, List.elem]
    rfl

/-- **The profile returned by the cumulative generator**: total weight `N`, whole positive weights,
sum of the bloc profiles. -/
theorem C14_run_cumulative (P : Params) (log : List Call) (out : GenOut) (hk : P.kind = "cumulative")
    (hnb : P.nb = P.props.length) (h : run P log = .ok out) :
    totalWeight out.agg = P.N ∧ (∀ b ∈ out.agg, ∃ n : Nat, 0 < n ∧ b.weight = (n : Rat)) ∧
      totalWeight out.agg = rsum (out.byBloc.map totalWeight) := by
  have tot : Ensures (runCumulative P) (fun bb => bb.flatten.length = P.N ∧ ∀ b ∈ bb.flatten, b.weight = 1) := by
    refine ensures_weaken _ _ _ (C14_runCumulative P hnb) (fun bb hbb => ⟨hbb.1, ?_⟩)
    intro b hb
    obtain ⟨o, ho, hbo⟩ := List.mem_flatten.1 hb
    obtain ⟨d, hd, _⟩ := hbb.2 o ho b hbo
    rw [hd]; rfl
  refine run_of_wrap P log out (runCumulative P) _ ?_ (wrapBlocs_total P.N _ tot) h
  unfold run wrapBlocs
  simp only [hk]
  simp [List.contains, List.elem]
  rfl

end Gen
end VK
