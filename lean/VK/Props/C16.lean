/-
  Property C16 — generated ballots follow the documented model distributions.

  Reading (DESIGN.md §4 C16): the correspondence check shows that the implementation makes exactly the
  primitive calls of `VK.Model.Gen` (population aligned with its probability vector, size, flags)
  and assembles ballots from the results as the model does. The theorems below are about that model:
  the deterministic maps from primitive results to ballots (`whichBin`, `typeStep`, `mcmcStep`,
  `slateMcmcStep`, `sortByDist`, `alternate`) and, in `Dist`, the laws that follow from the *assumed*
  laws of the primitives (successive sampling, i.i.d. categorical draws, uniform flips).
-/
import VK.Model.Gen
import VK.Lemmas.DistLemmas
import VK.Props.C14
import Mathlib.Tactic.FieldSimp
import Mathlib.Tactic.Linarith
import Mathlib.Tactic.Ring
import Mathlib.Algebra.Order.Field.Basic
import Mathlib.Algebra.Order.Field.Rat

namespace VK
open Gen Dist

/-! ### which_bin: a uniform flip selects slate `i` with probability `values[i]` -/

/-- **`which_bin` is the interval test.** It returns `i` exactly when the flip lies in
`(bins[i], bins[i+1]]` and in no earlier such interval. -/
theorem C16_whichBin_iff (bins : List Rat) (u : Rat) (i : Nat) :
    whichBin bins u = some i ↔
      (∃ lo hi, bins[i]? = some lo ∧ bins[i + 1]? = some hi ∧ lo < u ∧ u ≤ hi) ∧
      ∀ j < i, ∀ lo hi, bins[j]? = some lo → bins[j + 1]? = some hi → ¬ (lo < u ∧ u ≤ hi) := by
  induction bins generalizing i with
  | nil => simp [whichBin]
  | cons lo rest ih =>
    cases rest with
    | nil => simp [whichBin]
    | cons hi rest =>
      unfold whichBin
      by_cases h : lo < u ∧ u ≤ hi
      · simp only [h.1, h.2, decide_true, Bool.and_self, if_true, Option.some.injEq]
        constructor
        · intro hi0; subst hi0
          exact ⟨⟨lo, hi, by simp, by simp, h.1, h.2⟩, by intro j hj; omega⟩
        · rintro ⟨_, hfirst⟩
          by_contra hne
          have : 0 < i := by omega
          exact hfirst 0 this lo hi (by simp) (by simp) h
      · have hd : (decide (lo < u) && decide (u ≤ hi)) = false := by
          rw [Bool.and_eq_false_iff]
          by_cases h1 : lo < u
          · right; simp only [decide_eq_false_iff_not]; exact fun h2 => h ⟨h1, h2⟩
          · left; simp [h1]
        simp only [hd, Bool.false_eq_true, if_false, Option.map_eq_some_iff]
        constructor
        · rintro ⟨k, hk, rfl⟩
          obtain ⟨⟨lo', hi', h1, h2, h3, h4⟩, hfirst⟩ := (ih k).1 hk
          refine ⟨⟨lo', hi', by simpa using h1, by simpa using h2, h3, h4⟩, ?_⟩
          intro j hj lo'' hi'' g1 g2
          cases j with
          | zero =>
            simp only [List.getElem?_cons_zero, Option.some.injEq, zero_add, List.getElem?_cons_succ] at g1 g2
            subst g1 g2; exact h
          | succ j => exact hfirst j (by omega) lo'' hi'' (by simpa using g1) (by simpa using g2)
        · rintro ⟨⟨lo', hi', h1, h2, h3, h4⟩, hfirst⟩
          cases i with
          | zero =>
            simp only [List.getElem?_cons_zero, Option.some.injEq, zero_add, List.getElem?_cons_succ] at h1 h2
            subst h1 h2; exact absurd ⟨h3, h4⟩ h
          | succ k =>
            refine ⟨k, (ih k).2 ⟨⟨lo', hi', by simpa using h1, by simpa using h2, h3, h4⟩, ?_⟩, rfl⟩
            intro j hj lo'' hi'' g1 g2
            exact hfirst (j + 1) (by omega) lo'' hi'' (by simpa using g1) (by simpa using g2)

theorem prefixSums_go_getElem (acc : Rat) (vs : List Rat) (i : Nat) (v : Rat) (h : vs[i]? = some v) :
    ∃ a, (prefixSums.go acc vs)[i]? = some a ∧ (prefixSums.go acc vs)[i + 1]? = some (a + v) := by
  induction vs generalizing acc i with
  | nil => simp at h
  | cons x xs ih =>
    cases i with
    | zero =>
      simp only [List.getElem?_cons_zero, Option.some.injEq] at h
      subst h
      refine ⟨acc, by simp [prefixSums.go], ?_⟩
      cases xs <;> simp [prefixSums.go]
    | succ i =>
      obtain ⟨a, h1, h2⟩ := ih (acc + x) i (by simpa using h)
      exact ⟨a, by simpa [prefixSums.go] using h1, by simpa [prefixSums.go] using h2⟩

/-- **The width of bin `i` is the weight of slate `i`**: under a uniform flip the slate is drawn
with probability `values[i]` (the measure of `(B_i, B_i + v_i]`). -/
theorem C16_whichBin_width (vs : List Rat) (i : Nat) (v : Rat) (h : vs[i]? = some v) :
    ∃ a, (prefixSums vs)[i]? = some a ∧ (prefixSums vs)[i + 1]? = some (a + v) :=
  prefixSums_go_getElem 0 vs i v h

/-- renormalising weights with non-zero total gives a probability vector -/
theorem rsum_map_div (vs : List Rat) (h : rsum vs ≠ 0) : rsum (vs.map (· / rsum vs)) = 1 := by
  have : (fun x : Rat => x / rsum vs) = fun x => x * (rsum vs)⁻¹ := by funext x; rw [div_eq_mul_inv]
  rw [this, rsum_map_mul_right]
  simp only [List.map_id']
  exact mul_inv_cancel₀ h

/-- **Renormalisation on exhaustion.** A step of the slate-pattern sampler either keeps slates and
weights (the drawn slate still has candidates) or removes exactly the used-up slate and rescales the
remaining weights to sum to one (when their total is positive). -/
theorem C16_typeStep_renormalised (sizes : List Nat) (st st' : TypeState) (flip : Rat)
    (h : typeStep sizes st flip = .continue st') :
    (st'.slates = st.slates ∧ st'.values = st.values) ∨
    ∃ bi, whichBin (prefixSums st.values) flip = some bi ∧ st'.slates = eraseAt st.slates bi ∧
      ((rsum (eraseAt st.values bi) ≠ 0 ∧ st'.values = (eraseAt st.values bi).map (· / rsum (eraseAt st.values bi)) ∧
          rsum st'.values = 1) ∨
       (rsum (eraseAt st.values bi) = 0 ∧ st'.values = eraseAt st.values bi)) := by
  unfold typeStep at h
  cases hb : whichBin (prefixSums st.values) flip with
  | none => simp [hb] at h
  | some bi =>
    simp only [hb] at h
    cases hs : st.slates[bi]? with
    | none => simp [hs] at h
    | some s =>
      simp only [hs] at h
      split at h
      · split at h
        · cases h
        · split at h
          · rename_i _ h0
            injection h with h; subst h
            exact Or.inr ⟨bi, rfl, rfl, Or.inr ⟨h0, rfl⟩⟩
          · rename_i _ h0
            injection h with h; subst h
            exact Or.inr ⟨bi, rfl, rfl, Or.inl ⟨h0, rfl, rsum_map_div _ h0⟩⟩
      · injection h with h; subst h
        exact Or.inl ⟨rfl, rfl⟩

/-! ### Plackett–Luce = successive sampling (law of `np.random.choice(p, replace=False)`) -/

/-- remove the first entry for candidate `c` -/
def dropCand (c : Cand) : List (Cand × Rat) → List (Cand × Rat)
  | [] => []
  | e :: rest => if e.1 = c then rest else e :: dropCand c rest

/-- successive sampling of `k` candidates from the weights `x` -/
def plDist : Nat → List (Cand × Rat) → Dist (List Cand)
  | 0, _ => Dist.pure []
  | k + 1, x => Dist.bind (Dist.weighted x) (fun c => Dist.bind (plDist k (dropCand c x)) (fun r => Dist.pure (c :: r)))

theorem prob_bind_pure_cons (d : Dist (List Cand)) (c : Cand) (r : List Cand) :
    (Dist.bind d (fun r => Dist.pure (c :: r))).prob (c :: r) = d.prob r := by
  rw [prob_bind]
  obtain ⟨l⟩ := d
  simp only [prob_pure]
  unfold Dist.prob
  induction l with
  | nil => simp
  | cons e es ih =>
    simp only [List.map_cons, rsum_cons, ih, List.filter_cons]
    by_cases h : e.1 = r
    · simp [h]
    · simp [h]

theorem prob_bind_pure_cons_ne (d : Dist (List Cand)) (c c' : Cand) (r : List Cand) (h : c ≠ c') :
    (Dist.bind d (fun r => Dist.pure (c :: r))).prob (c' :: r) = 0 := by
  rw [prob_bind]
  obtain ⟨l⟩ := d
  simp only [prob_pure]
  induction l with
  | nil => simp
  | cons e es ih => simp [h, rsum_replicate]

/-- probability of `c` under a categorical draw from duplicate-free weights -/
theorem prob_weighted_nodup (x : List (Cand × Rat)) (c : Cand) (v : Rat) (hn : (x.map (·.1)).Nodup)
    (hc : (c, v) ∈ x) : (Dist.weighted x).prob c = v / rsum (x.map (·.2)) := by
  unfold Dist.weighted Dist.prob
  simp only
  generalize rsum (x.map (·.2)) = T
  induction x with
  | nil => simp at hc
  | cons e es ih =>
    simp only [List.map_cons, List.nodup_cons] at hn
    simp only [List.map_cons, List.filter_cons]
    rcases List.mem_cons.1 hc with h | h
    · subst h
      have : ∀ e' ∈ es, ¬ (e'.1 = c) := fun e' he' heq => hn.1 (List.mem_map.2 ⟨e', he', heq⟩)
      have hnil : (es.map (fun aw => (aw.1, aw.2 / T))).filter (fun e => decide (e.1 = c)) = [] := by
        rw [List.filter_eq_nil_iff]
        intro a ha
        obtain ⟨e', he', rfl⟩ := List.mem_map.1 ha
        simpa using this e' he'
      simp [hnil]
    · have hne : e.1 ≠ c := fun heq => hn.1 (List.mem_map.2 ⟨(c, v), h, heq.symm⟩)
      simp only [hne, decide_false, Bool.false_eq_true, if_false]
      exact ih hn.2 h

theorem rsum_map_single {α} (l : List α) (a : α) (f : α → Rat) (hmem : a ∈ l) (hn : l.Nodup)
    (h0 : ∀ b ∈ l, b ≠ a → f b = 0) : rsum (l.map f) = f a := by
  induction l with
  | nil => simp at hmem
  | cons e es ih =>
    rw [List.nodup_cons] at hn
    simp only [List.map_cons, rsum_cons]
    rcases List.mem_cons.1 hmem with h | h
    · subst h
      have : ∀ b ∈ es, f b = 0 := fun b hb => h0 b (by simp [hb]) (fun e => hn.1 (e ▸ hb))
      rw [List.map_congr_left this]; simp [rsum_replicate]
    · have hne : e ≠ a := fun e' => hn.1 (e' ▸ h)
      rw [h0 e (by simp) hne, ih h hn.2 (fun b hb => h0 b (by simp [hb]))]; ring

/-- **Plackett–Luce step.** The probability of drawing the ranking `c :: r` is the share of `c` among
the remaining candidates times the probability of `r` from the rest: successive sampling without
replacement from the interval. -/
theorem C16_pl_ranking_prob (k : Nat) (x : List (Cand × Rat)) (c : Cand) (v : Rat) (r : List Cand)
    (hn : (x.map (·.1)).Nodup) (hc : (c, v) ∈ x) :
    (plDist (k + 1) x).prob (c :: r) = v / rsum (x.map (·.2)) * (plDist k (dropCand c x)).prob r := by
  conv_lhs => rw [plDist]
  rw [prob_bind]
  unfold Dist.weighted
  simp only [List.map_map, Function.comp_def]
  have hnx : x.Nodup := List.Nodup.of_map _ hn
  rw [rsum_map_single x (c, v) _ hc hnx]
  · simp only [prob_bind_pure_cons]
  · intro b hb hne
    have hk : b.1 ≠ c := by
      intro heq
      apply hne
      have := List.inj_on_of_nodup_map hn hb hc heq
      exact this
    rw [prob_bind_pure_cons_ne _ _ _ _ hk]; ring

/-- **First choice.** The first candidate of a Plackett–Luce ballot is `c` with probability
`x_c / Σ x`. -/
theorem C16_pl_first (x : List (Cand × Rat)) (c : Cand) (v : Rat) (hn : (x.map (·.1)).Nodup) (hc : (c, v) ∈ x) :
    (Dist.weighted x).prob c = v / rsum (x.map (·.2)) := prob_weighted_nodup x c v hn hc

/-- total mass of a successive-sampling law is one as long as every step draws from a non-zero total
(all supports positive and at least `k` candidates) -/
theorem C16_pl_mass (k : Nat) (x : List (Cand × Rat)) (hpos : ∀ e ∈ x, (0 : Rat) < e.2) (hk : k ≤ x.length) :
    (plDist k x).mass = 1 := by
  induction k generalizing x with
  | zero => simp [plDist, Dist.mass, Dist.pure]
  | succ k ih =>
    rw [plDist, mass_bind]
    have hne : x ≠ [] := by intro h; subst h; simp at hk
    have hT : rsum (x.map (·.2)) ≠ 0 := by
      have : 0 < rsum (x.map (·.2)) := by
        cases x with
        | nil => exact absurd rfl hne
        | cons e es =>
          simp only [List.map_cons, rsum_cons]
          have h1 := hpos e (by simp)
          have h2 : 0 ≤ rsum (es.map (·.2)) := rsum_nonneg _ (by
            intro y hy
            obtain ⟨e', he', rfl⟩ := List.mem_map.1 hy
            exact le_of_lt (hpos e' (by simp [he'])))
          linarith
      exact ne_of_gt this
    have hinner : ∀ ap ∈ (Dist.weighted x).supp,
        ap.2 * (Dist.bind (plDist k (dropCand ap.1 x)) (fun r => Dist.pure (ap.1 :: r))).mass = ap.2 := by
      intro ap hap
      have hmem : ∃ e ∈ x, e.1 = ap.1 := by
        unfold Dist.weighted at hap
        obtain ⟨e, he, rfl⟩ := List.mem_map.1 hap
        exact ⟨e, he, rfl⟩
      obtain ⟨e, he, heq⟩ := hmem
      have hlen : (dropCand ap.1 x).length + 1 = x.length ∧ ∀ e' ∈ dropCand ap.1 x, e' ∈ x := by
        clear hap ih hk hne hT hpos
        induction x with
        | nil => simp at he
        | cons y ys ihy =>
          unfold dropCand
          by_cases hy : y.1 = ap.1
          · simp [hy]
            intro a b hab; exact Or.inr hab
          · simp only [hy, if_false, List.length_cons]
            have hys : e ∈ ys := by
              rcases List.mem_cons.1 he with h | h
              · exact absurd (h ▸ heq) hy
              · exact h
            obtain ⟨h1, h2⟩ := ihy hys
            refine ⟨by omega, ?_⟩
            intro e' he'
            rcases List.mem_cons.1 he' with h | h
            · simp [h]
            · exact List.mem_cons_of_mem _ (h2 e' h)
      rw [mass_bind]
      have h1 := ih (dropCand ap.1 x) (fun e' he' => hpos e' (hlen.2 e' he')) (by omega)
      have : rsum ((plDist k (dropCand ap.1 x)).supp.map (fun rp => rp.2 * (Dist.pure (ap.1 :: rp.1)).mass)) =
          (plDist k (dropCand ap.1 x)).mass := by
        unfold Dist.mass Dist.pure
        simp
      rw [this, h1, mul_one]
    rw [List.map_congr_left hinner]
    exact mass_weighted x hT

/-! ### cumulative ballots: independent draws with replacement -/

/-- `k` independent categorical draws -/
def iidDist : Nat → List (Cand × Rat) → Dist (List Cand)
  | 0, _ => Dist.pure []
  | k + 1, x => Dist.bind (Dist.weighted x) (fun c => Dist.bind (iidDist k x) (fun r => Dist.pure (c :: r)))

/-- **Cumulative votes are i.i.d.** The probability of the vote sequence `c :: r` is the share of
`c` times the probability of `r` — drawn from the *same* interval (with replacement). -/
theorem C16_cumulative_iid (k : Nat) (x : List (Cand × Rat)) (c : Cand) (v : Rat) (r : List Cand)
    (hn : (x.map (·.1)).Nodup) (hc : (c, v) ∈ x) :
    (iidDist (k + 1) x).prob (c :: r) = v / rsum (x.map (·.2)) * (iidDist k x).prob r := by
  conv_lhs => rw [iidDist]
  rw [prob_bind]
  unfold Dist.weighted
  simp only [List.map_map, Function.comp_def]
  have hnx : x.Nodup := List.Nodup.of_map _ hn
  rw [rsum_map_single x (c, v) _ hc hnx]
  · simp only [prob_bind_pure_cons]
  · intro b hb hne
    have hk : b.1 ≠ c := by
      intro heq
      exact hne (List.inj_on_of_nodup_map hn hb hc heq)
    rw [prob_bind_pure_cons_ne _ _ _ _ hk]; ring

/-! ### name-Bradley–Terry MCMC: the kernel is reversible w.r.t. the table -/

theorem swapAt_length {α} (l : List α) (j : Nat) : (swapAt l j).length = l.length := by
  induction l generalizing j with
  | nil => cases j <;> simp [swapAt]
  | cons a rest ih =>
    cases j with
    | zero => cases rest <;> simp [swapAt]
    | succ j => simp [swapAt, ih]

theorem rpowNat_succ (x : Rat) (n : Nat) : powProd.rpowNat x (n + 1) = x * powProd.rpowNat x n := rfl

/-- **Swap ratio.** Exchanging the adjacent entries `a` (above) and `b` (below) multiplies the
table weight `Π x_i^(m-1-i)` by `x_b / x_a` (stated without division). -/
theorem C16_bt_swap_ratio (vals : List Rat) (j : Nat) (a b : Rat) (ha : vals[j]? = some a) (hb : vals[j + 1]? = some b) :
    powProd (swapAt vals j) * a = powProd vals * b := by
  induction vals generalizing j with
  | nil => simp at ha
  | cons x rest ih =>
    cases j with
    | zero =>
      cases rest with
      | nil => simp at hb
      | cons y rest' =>
        simp only [List.getElem?_cons_zero, Option.some.injEq, zero_add, List.getElem?_cons_succ] at ha hb
        subst ha hb
        simp only [swapAt, powProd, List.length_cons, rpowNat_succ]
        ring
    | succ j =>
      simp only [List.getElem?_cons_succ] at ha hb
      simp only [swapAt, powProd, swapAt_length]
      rw [mul_assoc, ih j ha hb]; ring

/-- **Detailed balance for `_BT_mcmc`.** With acceptance `min(1, x_b/x_a)` for moving `b` above `a`
(and the same proposal probability in both directions), table weight times acceptance is the same
for a ranking and its adjacent swap — so the `_BT_pdf` table is stationary for the chain. -/
theorem C16_bt_mcmc_reversible (vals : List Rat) (j : Nat) (a b : Rat) (ha : vals[j]? = some a)
    (hb : vals[j + 1]? = some b) (hpa : 0 < a) (hpb : 0 < b) :
    powProd vals * rmin 1 (b / a) = powProd (swapAt vals j) * rmin 1 (a / b) := by
  have hr := C16_bt_swap_ratio vals j a b ha hb
  have hsw : powProd (swapAt vals j) = powProd vals * b / a := by
    field_simp; linarith
  rw [hsw]
  unfold rmin
  by_cases h : b ≤ a
  · have h1 : ¬ (1 : Rat) ≤ b / a ∨ b = a := by
      by_cases he : b = a
      · exact Or.inr he
      · left; rw [not_le, div_lt_one hpa]; exact lt_of_le_of_ne h he
    rcases h1 with h1 | h1
    · have h2 : (1 : Rat) ≤ a / b := by rw [le_div_iff₀ hpb]; linarith
      simp only [h1, h2, if_false, if_true]; field_simp
    · subst h1
      have : b / b = 1 := div_self (ne_of_gt hpb)
      simp only [this, le_refl, if_true]
      field_simp
  · have hlt : a < b := lt_of_not_ge h
    have h1 : (1 : Rat) ≤ b / a := by rw [le_div_iff₀ hpa]; linarith
    have h2 : ¬ (1 : Rat) ≤ a / b := by rw [not_le, div_lt_one hpb]; exact hlt
    simp only [h1, h2, if_false, if_true]; field_simp

/-! ### slate-Bradley–Terry MCMC -/

theorem filter_false_swapAt (t : List Bool) (j : Nat) :
    ((swapAt t j).filter (· = false)).length = (t.filter (· = false)).length := by
  induction t generalizing j with
  | nil => cases j <;> simp [swapAt]
  | cons a rest ih =>
    cases j with
    | zero =>
      cases rest with
      | nil => simp [swapAt]
      | cons b rest' => cases a <;> cases b <;> simp [swapAt]
    | succ j =>
      have := ih j
      cases a <;> simp [swapAt] <;> simpa using this

/-- **Swap changes the success count by one.** Moving an opposing candidate above an own one at an
adjacent pair removes exactly one (own above other) pair. -/
theorem C16_slate_swap_ratio (t : List Bool) (j : Nat) (h1 : t[j]? = some true) (h2 : t[j + 1]? = some false) :
    successes (swapAt t j) + 1 = successes t := by
  induction t generalizing j with
  | nil => simp at h1
  | cons a rest ih =>
    cases j with
    | zero =>
      cases rest with
      | nil => simp at h2
      | cons b rest' =>
        simp only [List.getElem?_cons_zero, Option.some.injEq, zero_add, List.getElem?_cons_succ] at h1 h2
        subst h1 h2
        simp [swapAt, successes]; omega
    | succ j =>
      simp only [List.getElem?_cons_succ] at h1 h2
      have := ih j h1 h2
      cases a
      · simp only [swapAt, successes]; exact this
      · simp only [swapAt, successes, filter_false_swapAt]; omega

theorem rpowNat_pos (x : Rat) (n : Nat) (h : 0 < x) : 0 < powProd.rpowNat x n := by
  induction n with
  | zero => simp [powProd.rpowNat]
  | succ n ih => rw [rpowNat_succ]; exact mul_pos h ih

/-- **Detailed balance for the slate-BT chain** (cohesion strictly between 0 and 1): weight
`c^s (1-c)^(T-s)` times the acceptance probability is the same in both directions of an adjacent
own/other swap, so `_compute_ballot_type_dist` is stationary. `s` successes before, `s - 1` after. -/
theorem C16_slate_mcmc_reversible (c : Rat) (hc0 : 0 < c) (hc1 : c < 1) (t : List Bool) (j T : Nat)
    (h1 : t[j]? = some true) (h2 : t[j + 1]? = some false) (hT : successes t ≤ T) :
    ∃ a a', slateAccept c t j = some a ∧ slateAccept c (swapAt t j) j = some a' ∧
      powProd.rpowNat c (successes t) * powProd.rpowNat (1 - c) (T - successes t) * a =
      powProd.rpowNat c (successes (swapAt t j)) * powProd.rpowNat (1 - c) (T - successes (swapAt t j)) * a' := by
  have hs := C16_slate_swap_ratio t j h1 h2
  have hsw1 : (swapAt t j)[j]? = some false ∧ (swapAt t j)[j + 1]? = some true := by
    clear hs hT
    induction t generalizing j with
    | nil => simp at h1
    | cons x rest ih =>
      cases j with
      | zero =>
        cases rest with
        | nil => simp at h2
        | cons y rest' =>
          simp only [List.getElem?_cons_zero, Option.some.injEq, zero_add, List.getElem?_cons_succ] at h1 h2
          subst h1 h2; simp [swapAt]
      | succ j =>
        simp only [List.getElem?_cons_succ] at h1 h2
        simpa [swapAt] using ih j h1 h2
  have hne0 : c ≠ 0 := ne_of_gt hc0
  have hne1 : c ≠ 1 := ne_of_lt hc1
  have h1c : 0 < 1 - c := by linarith
  refine ⟨rmin 1 ((1 - c) / c), rmin 1 (c / (1 - c)), by simp [slateAccept, h1, h2, hne0], by
    simp [slateAccept, hsw1.1, hsw1.2, hne1], ?_⟩
  obtain ⟨s', hs'⟩ : ∃ s', successes (swapAt t j) = s' := ⟨_, rfl⟩
  rw [hs'] at hs ⊢
  have hst : successes t = s' + 1 := by omega
  rw [hst]
  have hTs : T - s' = (T - (s' + 1)) + 1 := by omega
  rw [hTs, rpowNat_succ, rpowNat_succ]
  have hp1 := rpowNat_pos c s' hc0
  have hp2 := rpowNat_pos (1 - c) (T - (s' + 1)) h1c
  unfold rmin
  by_cases hle : c ≤ 1 - c
  · have hh : c = 1 - c ∨ c < 1 - c := by rcases lt_or_eq_of_le hle with h | h; exact Or.inr h; exact Or.inl h
    rcases hh with hh | hh
    · have e1 : (1 - c) / c = 1 := by rw [← hh]; exact div_self hne0
      have e2 : c / (1 - c) = 1 := by rw [← hh]; exact div_self hne0
      simp only [e1, e2, le_refl, if_true]
      rw [← hh]; ring
    · have g1 : (1 : Rat) ≤ (1 - c) / c := by rw [le_div_iff₀ hc0]; linarith
      have g2 : ¬ (1 : Rat) ≤ c / (1 - c) := by rw [not_le, div_lt_one h1c]; exact hh
      simp only [g1, g2, if_true, if_false]
      field_simp
  · have hlt : 1 - c < c := lt_of_not_ge hle
    have g1 : ¬ (1 : Rat) ≤ (1 - c) / c := by rw [not_le, div_lt_one hc0]; exact hlt
    have g2 : (1 : Rat) ≤ c / (1 - c) := by rw [le_div_iff₀ h1c]; linarith
    simp only [g1, g2, if_true, if_false]
    field_simp

/-! ### Impartial Culture -/

/-- **IC is uniform.** Under the uniform law on a duplicate-free list of rankings every ranking of
the list has probability `1 / (number of rankings)`. -/
theorem C16_ic_uniform (rankings : List (List Cand)) (r : List Cand) (hn : rankings.Nodup) (hr : r ∈ rankings) :
    (Dist.uniform rankings).prob r = 1 / (rankings.length : Rat) := by
  rw [prob_uniform]
  have : (rankings.filter (· = r)).length = 1 := by
    clear * - hn hr
    induction rankings with
    | nil => simp at hr
    | cons x xs ih =>
      rw [List.nodup_cons] at hn
      rcases List.mem_cons.1 hr with h | h
      · subst h
        have : xs.filter (· = r) = [] := by
          rw [List.filter_eq_nil_iff]
          intro a ha; simp only [decide_eq_true_eq]; intro e; exact hn.1 (e ▸ ha)
        simp [this]
      · have hne : x ≠ r := fun e => hn.1 (e ▸ h)
        simp only [List.filter_cons, hne, decide_false, Bool.false_eq_true, if_false]
        exact ih hn.2 h
  rw [this]; simp

/-! ### spatial generators -/

theorem insertByDist_sorted (c : Cand) (d : Rat) (l : List (Cand × Rat))
    (h : l.Pairwise (fun a b => a.2 ≤ b.2)) : (insertByDist c d l).Pairwise (fun a b => a.2 ≤ b.2) := by
  induction l with
  | nil => simp [insertByDist]
  | cons e rest ih =>
    obtain ⟨c', d'⟩ := e
    rw [List.pairwise_cons] at h
    unfold insertByDist
    split
    · rename_i hle
      rw [List.pairwise_cons]
      refine ⟨?_, List.pairwise_cons.2 h⟩
      intro a ha
      rcases List.mem_cons.1 ha with rfl | ha
      · exact hle
      · exact le_trans hle (h.1 a ha)
    · rename_i hnle
      rw [List.pairwise_cons]
      refine ⟨?_, ih h.2⟩
      intro a ha
      have := (insertByDist_perm c d rest).mem_iff.1 ha
      rcases List.mem_cons.1 this with rfl | ha'
      · exact le_of_lt (lt_of_not_ge hnle)
      · exact h.1 a ha'

/-- **Spatial ballots rank by increasing distance.** For every stream (every list of distances) the
ballot is a rearrangement of the candidates in non-decreasing distance from the voter. -/
theorem C16_spatial_sorted (cds : List (Cand × Rat)) :
    (sortByDist cds).Perm cds ∧ (sortByDist cds).Pairwise (fun a b => a.2 ≤ b.2) := by
  refine ⟨C14_sort_perm cds, ?_⟩
  unfold sortByDist
  induction cds with
  | nil => simp
  | cons e rest ih => simpa using insertByDist_sorted e.1 e.2 _ ih

/-! ### crossover ballots and slate restriction -/

/-- **Crossover ballots alternate**: position `2i` holds the `i`-th opposing candidate of the drawn
order, position `2i+1` the `i`-th own candidate; bloc ballots are the own order followed by the
opposing order (`bc ++ oc`, by definition of `runAC`). -/
theorem C16_alternate_structure (os bs : List Cand) (i : Nat) (h : i < min os.length bs.length) :
    (alternate os bs)[2 * i]? = os[i]? ∧ (alternate os bs)[2 * i + 1]? = bs[i]? := by
  induction os generalizing bs i with
  | nil => simp at h
  | cons o os ih =>
    cases bs with
    | nil => simp at h
    | cons b bs =>
      cases i with
      | zero => simp [alternate]
      | succ i =>
        have hi : i < min os.length bs.length := by simp at h ⊢; omega
        obtain ⟨h1, h2⟩ := ih bs i hi
        have e1 : 2 * (i + 1) = (2 * i) + 1 + 1 := by ring
        have e2 : 2 * (i + 1) + 1 = (2 * i + 1) + 1 + 1 := by ring
        rw [e2, e1]
        simp only [alternate, List.getElem?_cons_succ, h1, h2]
        exact ⟨trivial, trivial⟩

/-- **Restriction keeps the drawn order.** The candidates of one slate appear on a Cambridge ballot in
the relative order of the Plackett–Luce draw (`[c for c in pl_ordering if c in slate]`). -/
theorem C16_filter_order (pl : List Cand) (slate : List Cand) :
    (pl.filter (slate.contains ·)).Sublist pl := List.filter_sublist

/-- The full distributional statement for the slate models that draw on the *combined* interval and
restrict (CambridgeSampler): restricting a Plackett–Luce order to a slate is Plackett–Luce on that
slate's supports. Stated here; proved in `VK.Props.C16Restrict` (`C16_pl_restriction`,
`C16_PLRestrictionConsistent`) by the marginalisation identity of successive sampling. -/
def PLRestrictionConsistent : Prop :=
  ∀ (x : List (Cand × Rat)) (slate : List Cand) (r : List Cand),
    (x.map (·.1)).Nodup → (∀ e ∈ x, (0 : Rat) < e.2) →
    rsum ((plDist x.length x).supp.filter (fun op => op.1.filter (slate.contains ·) = r) |>.map (·.2)) =
      (plDist (x.filter (fun e => slate.contains e.1)).length (x.filter (fun e => slate.contains e.1))).prob r

/-! ### non-vacuity -/

example : whichBin (prefixSums [1/2, 1/4, 1/4]) (5/8) = some 1 := by decide +kernel
example : mcmcStep [(0, 1/4), (1, 3/4)] [1, 0] 0 (1/5) = some [0, 1] := by decide +kernel
example : slateMcmcStep (1/5) [true, false] 0 (9/10) = some [false, true] := by decide +kernel
example : (plDist 2 [(0, 1/2), (1, 1/2)]).prob [0, 1] = 1/2 := by decide +kernel

end VK
