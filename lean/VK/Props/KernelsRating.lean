/-
  VK.Props.KernelsRating — the three tests of `GeneralRating._validate_profile`, regenerated from /repo's
  current source, are the ones the model's validator (and C05's accept-iff theorems) use.
-/
import VK.Model.Generated.Rating
import VK.Model.Rules
import Mathlib.Algebra.Order.Field.Rat

namespace VK

/-- a ballot passes the model's validator exactly when it has scores and none of the source's three
refusal tests fires (per-candidate limit, negative score, budget) -/
theorem kernel_rating_validator (L : Rat) (k : Option Rat) (b : Ballot) :
    ratingBallotOk L k b =
      (!b.scores.isEmpty &&
       b.scores.all (fun cs => !Generated.overLimit cs.2 L) &&
       b.scores.all (fun cs => !Generated.negScore cs.2) &&
       (match k with
        | some k => !Generated.overBudget (rsum (b.scores.map (·.2))) k
        | none => true)) := by
  unfold ratingBallotOk Generated.overLimit Generated.negScore Generated.overBudget
  have h1 : ∀ cs : Cand × Rat, (!decide (cs.2 > L)) = decide (cs.2 ≤ L) := by
    intro cs; by_cases h : cs.2 ≤ L
    · simp [h, not_lt.2 h]
    · simp [h, lt_of_not_ge h]
  have h2 : ∀ cs : Cand × Rat, (!decide (cs.2 < (0 : Rat))) = decide (0 ≤ cs.2) := by
    intro cs; by_cases h : 0 ≤ cs.2
    · simp [h, not_lt.2 h]
    · simp [h, lt_of_not_ge h]
  simp only [h1, h2]
  cases k with
  | none => rfl
  | some k =>
    simp only
    congr 1
    by_cases h : rsum (b.scores.map (·.2)) ≤ k
    · simp [h, not_lt.2 h]
    · simp [h, lt_of_not_ge h]

end VK
