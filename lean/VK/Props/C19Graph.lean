/-
  C19, ballot graph: every ranking is a node exactly once, and loading a profile puts every cast
  ballot's weight on its node, so node weights add up to the profile's total weight.
-/
import VK.Props.C19Metric

namespace VK

theorem seqs_nodup (n k : Nat) : (seqs n k).Nodup := by
  induction k with
  | zero => simp [seqs]
  | succ k ih =>
    simp only [seqs]
    rw [List.nodup_flatMap]
    refine ⟨?_, ?_⟩
    · intro s _
      -- extensions of one sequence by distinct candidates are distinct
      have hc : ((List.range n).map (· + 1)).Nodup := (List.nodup_range).map (fun a b h => by simpa using h)
      refine List.Nodup.filterMap ?_ hc
      intro a a' b hb hb'
      split at hb
      · cases hb
      · split at hb'
        · cases hb'
        · simp only [Option.mem_def, Option.some.injEq] at hb hb'
          have := hb.trans hb'.symm
          have h2 := List.append_cancel_left this
          simpa using h2
    · -- extensions of different sequences are different (drop the last entry)
      refine List.Pairwise.imp_of_mem ?_ ih
      intro s t _ _ hst
      simp only [Function.onFun]
      intro x hx hx'
      simp only [List.mem_filterMap] at hx hx'
      obtain ⟨c, _, hc⟩ := hx
      obtain ⟨c', _, hc'⟩ := hx'
      split at hc
      · cases hc
      · split at hc'
        · cases hc'
        · injection hc with hc; injection hc' with hc'
          have := hc.trans hc'.symm
          have hl := List.append_inj' this rfl
          exact hst hl.1

/-- **Every ranking is a node exactly once.** -/
theorem C19_nodes_nodup (n : Nat) : (specNodes n).Nodup := by
  unfold specNodes
  rw [List.nodup_flatMap]
  refine ⟨?_, ?_⟩
  · intro k _
    split
    · exact List.nodup_nil
    · exact seqs_nodup n k
  · have hc : ((List.range n).map (· + 1)).Nodup := (List.nodup_range).map (fun a b h => by simpa using h)
    refine List.Pairwise.imp_of_mem ?_ hc
    intro k k' _ _ hkk
    simp only [Function.onFun]
    intro x hx hx'
    split at hx
    · simp at hx
    · split at hx'
      · simp at hx'
      · have h1 := ((C19_seqs_spec n k x).1 hx).1
        have h2 := ((C19_seqs_spec n k' x).1 hx').1
        exact hkk (h1.symm.trans h2)

/-- grouping weights by a key whose values all lie in a duplicate-free list of nodes loses nothing -/
theorem sum_by_key {β} (nodes : List (List Nat)) (hn : nodes.Nodup) (bs : List β) (key : β → List Nat) (w : β → Rat)
    (hk : ∀ b ∈ bs, key b ∈ nodes) :
    rsum (nodes.map (fun v => rsum ((bs.filter (fun b => key b = v)).map w))) = rsum (bs.map w) := by
  induction bs with
  | nil => simp [rsum_replicate]
  | cons b rest ih =>
    have ih' := ih (fun b' hb' => hk b' (by simp [hb']))
    have hsplit : ∀ v, rsum (((b :: rest).filter (fun b => key b = v)).map w) =
        (if key b = v then w b else 0) + rsum ((rest.filter (fun b => key b = v)).map w) := by
      intro v
      by_cases h : key b = v
      · simp [h, List.filter_cons]
      · simp [h, List.filter_cons]
    simp only [hsplit]
    rw [rsum_map_add, ih', List.map_cons, rsum_cons]
    congr 1
    -- exactly one node receives b
    have hb := hk b (by simp)
    clear ih ih' hsplit hk
    induction nodes with
    | nil => simp at hb
    | cons v vs ihv =>
      rw [List.nodup_cons] at hn
      simp only [List.map_cons, rsum_cons]
      rcases List.mem_cons.1 hb with h | h
      · have : ∀ v' ∈ vs, (if key b = v' then w b else 0) = 0 := by
          intro v' hv'
          have : key b ≠ v' := fun e => hn.1 (h ▸ e ▸ hv')
          simp [this]
        rw [List.map_congr_left this]
        simp [h, rsum_replicate]
      · have hne : key b ≠ v := fun e => hn.1 (e ▸ h)
        simp only [hne, if_false, zero_add]
        exact ihv hn.2 h

/-- **Node weights add up to the profile's total weight** whenever every cast ballot (after the
optional completion of length n−1 ballots) is a ranking the graph has a node for. -/
theorem C19_node_weights_total (n : Nat) (fix : Bool) (ballots : List (List Nat × Rat))
    (h : ∀ bw ∈ ballots, (if fix then fixShort n bw.1 else bw.1) ∈ specNodes n) :
    rsum ((nodeWeights n fix ballots).map (·.2)) = rsum (ballots.map (·.2)) := by
  unfold nodeWeights
  simp only [List.map_map, Function.comp_def]
  have := sum_by_key (specNodes n) (C19_nodes_nodup n) ballots (fun bw => if fix then fixShort n bw.1 else bw.1) (·.2) h
  simpa using this

/-- each cast ballot's weight sits on its own node: the node of ranking `v` carries the summed weight of
the ballots that are `v` -/
theorem C19_node_weight (n : Nat) (fix : Bool) (ballots : List (List Nat × Rat)) (v : List Nat) (hv : v ∈ specNodes n) :
    (v, rsum ((ballots.filter (fun bw => (if fix then fixShort n bw.1 else bw.1) = v)).map (·.2))) ∈ nodeWeights n fix ballots := by
  unfold nodeWeights
  exact List.mem_map.2 ⟨v, hv, rfl⟩

example : rsum ((nodeWeights 3 true [([1, 2, 3], 2), ([3, 1], 1/2), ([2], 3)]).map (·.2)) = 11/2 := by decide +kernel

end VK
