/-
  Property C09 — round-by-round queries on a finished election are consistent and pure.
  In the model every query is a function of the recorded rounds (`States`), so purity holds by
  construction; on the implementation it is observed by the correspondence check (snapshots after
  every call). The theorems below are the index rules and the cumulative structure.
-/
import VK.Lemmas.Rescore
import VK.Lemmas.RandomTransfer
import VK.Model.Replay
import Mathlib.Tactic.Linarith

namespace VK

/-- Index normalisation: exactly the indices in `[-len, len)` are accepted, and a negative one
addresses the same round as its non-negative equivalent. -/
theorem C09_normIndex (len : Nat) (r : Int) :
    (r < -(len : Int) ∨ (len : Int) ≤ r → normIndex len r = .raised .indexError) ∧
    (0 ≤ r → r < len → normIndex len r = .ok r.toNat) ∧
    (-(len : Int) ≤ r → r < 0 → normIndex len r = .ok (r + len).toNat) := by
  refine ⟨?_, ?_, ?_⟩
  · intro h
    unfold normIndex
    have : (decide (r < -(len : Int)) || decide (r > (len : Int) - 1)) = true := by
      simp only [Bool.or_eq_true, decide_eq_true_eq]; omega
    simp [this]
  · intro h0 h1
    unfold normIndex
    have : (decide (r < -(len : Int)) || decide (r > (len : Int) - 1)) = false := by
      simp only [Bool.or_eq_false_iff, decide_eq_false_iff_not]; omega
    simp only [this, Bool.false_eq_true, if_false]
    congr 1
    have : r % (len : Int) = r := Int.emod_eq_of_lt h0 h1
    rw [this]
  · intro h0 h1
    unfold normIndex
    have : (decide (r < -(len : Int)) || decide (r > (len : Int) - 1)) = false := by
      simp only [Bool.or_eq_false_iff, decide_eq_false_iff_not]; omega
    simp only [this, Bool.false_eq_true, if_false]
    congr 1
    have hlen : (0 : Int) < len := by omega
    have : r % (len : Int) = r + len := by
      have h2 : (r + len) % (len : Int) = r % len := by simp
      rw [← h2]
      exact Int.emod_eq_of_lt (by omega) (by omega)
    rw [this]

/-- **Negative indices address the same rounds as their non-negative equivalents** (all getters). -/
theorem C09_negative_index (cands : List Cand) (st : States) (r : Int)
    (h0 : -(st.length : Int) ≤ r) (h1 : r < 0) :
    getElected st r = getElected st (r + st.length) ∧
    getEliminated st r = getEliminated st (r + st.length) ∧
    getRemaining st r = getRemaining st (r + st.length) ∧
    getRanking st r = getRanking st (r + st.length) ∧
    getStatus cands st r = getStatus cands st (r + st.length) := by
  have hn := (C09_normIndex st.length r).2.2 h0 h1
  have hp := (C09_normIndex st.length (r + st.length)).2.1 (by omega) (by omega)
  have hrem : getRemaining st r = getRemaining st (r + st.length) := by
    unfold getRemaining pyIndex
    have h2 : ¬ (r + (st.length : Int) < 0) := by omega
    simp only [h1, if_true, h2, if_false]
  refine ⟨?_, ?_, hrem, ?_, ?_⟩
  · simp [getElected, hn, hp]
  · simp [getEliminated, hn, hp]
  · simp [getRanking, getElected, getEliminated, hn, hp, hrem]
  · simp [getStatus, getRanking, getElected, getEliminated, hn, hp, hrem]

/-- **Out-of-range indices raise IndexError** (all getters). -/
theorem C09_out_of_range (cands : List Cand) (st : States) (r : Int)
    (h : r < -(st.length : Int) ∨ (st.length : Int) ≤ r) :
    getElected st r = .raised .indexError ∧ getEliminated st r = .raised .indexError ∧
    getRemaining st r = .raised .indexError ∧ getRanking st r = .raised .indexError ∧
    getStatus cands st r = .raised .indexError ∧
    (∀ ps : List Profile, ps.length = st.length → getProfile ps r = .raised .indexError) := by
  have hn := (C09_normIndex st.length r).1 h
  have hrem : getRemaining st r = .raised .indexError := by
    unfold getRemaining pyIndex
    rcases h with h | h
    · have h1 : r < 0 := by omega
      have h2 : r + (st.length : Int) < 0 := by omega
      simp [h1, h2]
    · have h1 : ¬ r < 0 := by omega
      have h2 : st[r.toNat]? = none := by
        rw [List.getElem?_eq_none_iff]; omega
      simp [h1, h2]
  refine ⟨?_, ?_, hrem, ?_, ?_, ?_⟩
  · simp [getElected, hn]
  · simp [getEliminated, hn]
  · simp [getRanking, getElected, hn]
  · simp [getStatus, hn]
  · intro ps hps
    simp [getProfile, hps, hn]

/-- **Cumulative elected**: the answer for round `k` is the concatenation of the per-round records
up to `k`; consequently it only grows from one round to the next. -/
theorem C09_elected_cumulative (st : States) (k : Nat) (hk : k < st.length) :
    getElected st k = .ok ((st.take (k + 1)).flatMap (·.elected)) ∧
    (∀ s, st[k + 1]? = some s →
      getElected st (k + 1 : Nat) = .ok ((st.take (k + 1)).flatMap (·.elected) ++ s.elected)) := by
  have hn := (C09_normIndex st.length k).2.1 (by omega) (by exact_mod_cast hk)
  constructor
  · simp [getElected, hn]
  · intro s hs
    have hk1 : k + 1 < st.length := by
      by_contra hc
      rw [List.getElem?_eq_none_iff.2 (by omega)] at hs
      cases hs
    have hn1 := (C09_normIndex st.length ((k + 1 : Nat) : Int)).2.1 (by omega) (by exact_mod_cast hk1)
    simp only [getElected, hn1, bind, Outcome.bind, pure, Int.toNat_natCast]
    congr 1
    rw [List.take_add_one, List.flatMap_append, hs]
    simp

/-- **Cumulative eliminated**: most recent round first, each round's groups reversed. -/
theorem C09_eliminated_cumulative (st : States) (k : Nat) (hk : k < st.length) :
    getEliminated st k = .ok ((st.take (k + 1)).reverse.flatMap (fun s => s.eliminated.reverse)) := by
  have hn := (C09_normIndex st.length k).2.1 (by omega) (by exact_mod_cast hk)
  simp [getEliminated, hn]

/-- **The ranking is elected ++ remaining ++ eliminated** with empty groups dropped. -/
theorem C09_ranking_is_concat (st : States) (r : Int) (e rem el : Ranking)
    (he : getElected st r = .ok e) (hr : getRemaining st r = .ok rem) (hl : getEliminated st r = .ok el) :
    getRanking st r = .ok ((e ++ rem ++ el).filter (fun s => !s.isEmpty)) := by
  simp [getRanking, he, hr, hl]

/-- non-vacuity on a three-round record -/
example :
    let st : States := [{ remaining := [[0], [1], [2]] }, { round := 1, remaining := [[1], [2]], elected := [[0]] },
                        { round := 2, remaining := [[1]], eliminated := [[2]] }]
    getElected st (-1) = .ok [[0]] ∧ getEliminated st 2 = .ok [[2]] ∧ getRanking st (-1) = .ok [[0], [1], [2]] ∧
    getElected st 3 = .raised .indexError ∧ getRemaining st (-4) = .raised .indexError := by decide +kernel

/-! ### the profile reported for a round of an STV count -/

/-- weights stay non-negative through a step (either built-in transfer rule, positive threshold) -/
theorem stvStep_nonneg (cfg : STVCfg) (init : Profile) (q : Int) (ω : STVOracle) (rnd : Nat)
    (S S' : CState) (prev r : RoundState) (recs : List RoundState)
    (hT : GoodTransfers cfg) (hq : 0 < q) (inv : StvInv init.cands S prev recs) (hl : Linked S prev)
    (hnn : ∀ b ∈ S.bs, 0 ≤ b.2) (h : stvStep cfg init q ω rnd S prev = .ok (S', r)) :
    ∀ b ∈ S'.bs, 0 ≤ b.2 := by
  rcases stvStep_cases cfg init q ω rnd S S' prev r h with
    ⟨g, tbs, bs', habove, he, ha, hSb, _⟩ | ⟨_, _, hSb, _⟩ | ⟨_, _, _, _, _, _, hSb, _⟩
  · obtain ⟨hWn, _⟩ := electChoice_spec cfg q ω rnd S prev g tbs inv.hop_nodup inv.rem he
    have hge := electChoice_ge cfg q ω rnd S prev g tbs hl inv.hop_nodup habove he
    rw [hSb]
    exact (hT S.hopeful q (ω.sample rnd) (fun _ => false) (fun _ => false) g.flatten S.bs bs'
      hq hnn hWn hge (by intro w _ _; simp [wsum]) (by intro w _ h; cases h) ha).1
  · intro b hb
    rw [hSb] at hb
    obtain ⟨b0, _, rfl⟩ := List.mem_map.1 hb
    exact le_refl _
  · rw [hSb]; exact hnn

/-- what holds of every recorded round together with the count state reached after it -/
def RoundOK (x : RoundState × CState) : Prop :=
  x.1.remaining.flatten.Perm x.2.hopeful ∧ Linked x.2 x.1 ∧ ∀ b ∈ x.2.bs, 0 ≤ b.2

theorem stvLoop_rounds_ok (cfg : STVCfg) (init : Profile) (q : Int) (ω : STVOracle)
    (hT : GoodTransfers cfg) (hq : 0 < q) (hi : init.cands.Nodup)
    (fuel : Nat) (S : CState) (prev : RoundState) (acc tr : List (RoundState × CState))
    (hcs : ∀ c ∈ S.hopeful, c ∈ init.cands) (inv : StvInv init.cands S prev (acc.map (·.1)))
    (hl : Linked S prev) (hnn : ∀ b ∈ S.bs, 0 ≤ b.2) (hacc : ∀ x ∈ acc, RoundOK x)
    (h : stvLoop cfg init q ω fuel S prev acc = .ok tr) : ∀ x ∈ tr, RoundOK x := by
  induction fuel generalizing S prev acc with
  | zero =>
    unfold stvLoop at h
    split at h
    · injection h with h; subst h; intro x hx; exact hacc x (List.mem_reverse.1 hx)
    · cases h
  | succ fuel ih =>
    unfold stvLoop at h
    split at h
    · injection h with h; subst h; intro x hx; exact hacc x (List.mem_reverse.1 hx)
    · cases hs : stvStep cfg init q ω (prev.round + 1) S prev with
      | ok Sr =>
        obtain ⟨S', r⟩ := Sr
        simp only [hs, bind, Outcome.bind] at h
        obtain ⟨inv', hsub, _⟩ := stvStep_inv cfg init q ω _ S S' prev r _ hi hcs inv hs
        have hl' := stvStep_linked cfg init q ω _ S S' prev r hs
        have hnn' := stvStep_nonneg cfg init q ω _ S S' prev r _ hT hq inv hl hnn hs
        refine ih S' r ((r, S') :: acc) (fun c hc => hcs c (hsub c hc)) (by simpa using inv') hl' hnn' ?_ h
        intro x hx
        rcases List.mem_cons.1 hx with rfl | hx
        · exact ⟨inv'.rem, hl', hnn'⟩
        · exact hacc x hx
      | raised e => simp [hs, bind, Outcome.bind] at h
      | oracleMismatch => simp [hs, bind, Outcome.bind] at h
      | outOfFuel => simp [hs, bind, Outcome.bind] at h

/-- **C09 for the STV family: the profile of every round.** For a finished count (fractional or
random transfer, positive threshold, profile of untied ranked ballots with positive weights) and
every recorded round: the profile reported for that round has exactly the candidates remaining
after it, and re-scoring it (first-place votes) reproduces the tallies recorded for the round. -/
theorem C09_stv_round_profiles (cfg : STVCfg) (p : Profile) (ω : STVOracle) (res : STVResult)
    (hf : cfg.transfer = .fractional ∨ cfg.transfer = .random)
    (hq : 0 < threshold cfg.quota cfg.m p.total) (hc : p.cands.Nodup)
    (hw : ∀ b ∈ p.ballots, 0 < b.weight)
    (hne : ∀ b ∈ p.ballots, b.ranking ≠ [])
    (hsingle : ∀ b ∈ p.ballots, ∀ s ∈ b.ranking, s.length = 1)
    (hcast : ∀ b ∈ p.ballots, ∀ c ∈ b.ranking.flatten, c ∈ p.cands)
    (hrun : stvRun cfg p ω = .ok res) :
    ∀ x ∈ res.trace, (currentProfile x.2).cands.Perm x.1.remaining.flatten ∧
      firstPlaceVotes (currentProfile x.2) = .ok x.1.scores := by
  have hT : GoodTransfers cfg := hf.elim (goodTransfers_fractional cfg) (goodTransfers_random cfg)
  have hfpv := fpv_link p hne hsingle hcast
  unfold stvRun at hrun
  split at hrun; · cases hrun
  split at hrun; · cases hrun
  split at hrun; · cases hrun
  simp only [hfpv, bind, Outcome.bind] at hrun
  cases hl : stvLoop cfg p (threshold cfg.quota cfg.m p.total) ω (p.cands.length + 2) (stvInitState p)
      (initialState p.cands (some (tallies (stvInitState p).bs p.cands)))
      [(initialState p.cands (some (tallies (stvInitState p).bs p.cands)), stvInitState p)] with
  | ok tr =>
    simp only [hl, pure, Outcome.ok.injEq] at hrun
    subst hrun
    set sc0 := tallies (stvInitState p).bs p.cands with hsc0
    set st0 := initialState p.cands (some sc0) with hst0
    have hrem0 : st0.remaining.flatten.Perm p.cands := by
      have := scoreToRanking_perm sc0
      rw [hsc0, tallies_keys] at this
      simpa [hst0, initialState] using this
    have inv0 : StvInv p.cands (stvInitState p) st0 ([(st0, stvInitState p)].map (·.1)) := by
      refine ⟨hc, hrem0, ?_, ?_, ?_, trivial⟩
      · simp [stvInitState, electedIn, hst0, initialState]
      · simp [stvInitState, electedIn, eliminatedIn, hst0, initialState]
      · simpa [electedIn, eliminatedIn, hst0, initialState] using hrem0
    have hl0 : Linked (stvInitState p) st0 :=
      ⟨by simp [hst0, initialState, hsc0, stvInitState], by simp [hst0, initialState]⟩
    have hnn0 : ∀ b ∈ (stvInitState p).bs, 0 ≤ b.2 := by
      intro b hb
      simp only [stvInitState, List.mem_map] at hb
      obtain ⟨b0, hb0, rfl⟩ := hb
      exact le_of_lt (hw b0 hb0)
    have hall := stvLoop_rounds_ok cfg p _ ω hT hq hc _ _ _ _ tr (fun c hc' => hc') inv0 hl0 hnn0
      (by intro x hx; simp only [List.mem_singleton] at hx; subst hx; exact ⟨hrem0, hl0, hnn0⟩) hl
    intro x hx
    obtain ⟨hperm, hlk, hnn⟩ := hall x hx
    refine ⟨by simpa [currentProfile] using hperm.symm, ?_⟩
    rw [fpv_current x.2 hnn, hlk.1]
  | raised e => simp [hl] at hrun
  | oracleMismatch => simp [hl] at hrun
  | outOfFuel => simp [hl] at hrun


end VK
