/-
  Property C09 — round-by-round queries on a finished election are consistent and pure.
  In the model every query is a function of the recorded rounds (`States`), so purity holds by
  construction; on the implementation it is observed by the correspondence check (snapshots after
  every call). The theorems below are the index rules and the cumulative structure.
-/
import VK.Model.Replay
import Mathlib.Tactic.Linarith

namespace VK

/-- Index normalisation: exactly the indices in `[-len, len)` are accepted, and a negative one
addresses the same round as its non-negative equivalent. -/
theorem C09_normIndex (len : Nat) (r : Int) :
    (r < -(len : Int) ∨ (len : Int) ≤ r → normIndex len r = .raised .indexError) ∧
    (0 ≤ r → r < len → normIndex len r = .ok r.toNat) ∧
    (-(len : Int) ≤ r → r < 0 → normIndex len r = .ok (r + len).toNat) := by
  refine ⟨?_, ?_, ?_⟩
  · intro h
    unfold normIndex
    have : (decide (r < -(len : Int)) || decide (r > (len : Int) - 1)) = true := by
      simp only [Bool.or_eq_true, decide_eq_true_eq]; omega
    simp [this]
  · intro h0 h1
    unfold normIndex
    have : (decide (r < -(len : Int)) || decide (r > (len : Int) - 1)) = false := by
      simp only [Bool.or_eq_false_iff, decide_eq_false_iff_not]; omega
    simp only [this, Bool.false_eq_true, if_false]
    congr 1
    have : r % (len : Int) = r := Int.emod_eq_of_lt h0 h1
    rw [this]
  · intro h0 h1
    unfold normIndex
    have : (decide (r < -(len : Int)) || decide (r > (len : Int) - 1)) = false := by
      simp only [Bool.or_eq_false_iff, decide_eq_false_iff_not]; omega
    simp only [this, Bool.false_eq_true, if_false]
    congr 1
    have hlen : (0 : Int) < len := by omega
    have : r % (len : Int) = r + len := by
      have h2 : (r + len) % (len : Int) = r % len := by simp
      rw [← h2]
      exact Int.emod_eq_of_lt (by omega) (by omega)
    rw [this]

/-- **Negative indices address the same rounds as their non-negative equivalents** (all getters). -/
theorem C09_negative_index (cands : List Cand) (st : States) (r : Int)
    (h0 : -(st.length : Int) ≤ r) (h1 : r < 0) :
    getElected st r = getElected st (r + st.length) ∧
    getEliminated st r = getEliminated st (r + st.length) ∧
    getRemaining st r = getRemaining st (r + st.length) ∧
    getRanking st r = getRanking st (r + st.length) ∧
    getStatus cands st r = getStatus cands st (r + st.length) := by
  have hn := (C09_normIndex st.length r).2.2 h0 h1
  have hp := (C09_normIndex st.length (r + st.length)).2.1 (by omega) (by omega)
  have hrem : getRemaining st r = getRemaining st (r + st.length) := by
    unfold getRemaining pyIndex
    have h2 : ¬ (r + (st.length : Int) < 0) := by omega
    simp only [h1, if_true, h2, if_false]
  refine ⟨?_, ?_, hrem, ?_, ?_⟩
  · simp [getElected, hn, hp]
  · simp [getEliminated, hn, hp]
  · simp [getRanking, getElected, getEliminated, hn, hp, hrem]
  · simp [getStatus, getRanking, getElected, getEliminated, hn, hp, hrem]

/-- **Out-of-range indices raise IndexError** (all getters). -/
theorem C09_out_of_range (cands : List Cand) (st : States) (r : Int)
    (h : r < -(st.length : Int) ∨ (st.length : Int) ≤ r) :
    getElected st r = .raised .indexError ∧ getEliminated st r = .raised .indexError ∧
    getRemaining st r = .raised .indexError ∧ getRanking st r = .raised .indexError ∧
    getStatus cands st r = .raised .indexError ∧
    (∀ ps : List Profile, ps.length = st.length → getProfile ps r = .raised .indexError) := by
  have hn := (C09_normIndex st.length r).1 h
  have hrem : getRemaining st r = .raised .indexError := by
    unfold getRemaining pyIndex
    rcases h with h | h
    · have h1 : r < 0 := by omega
      have h2 : r + (st.length : Int) < 0 := by omega
      simp [h1, h2]
    · have h1 : ¬ r < 0 := by omega
      have h2 : st[r.toNat]? = none := by
        rw [List.getElem?_eq_none_iff]; omega
      simp [h1, h2]
  refine ⟨?_, ?_, hrem, ?_, ?_, ?_⟩
  · simp [getElected, hn]
  · simp [getEliminated, hn]
  · simp [getRanking, getElected, hn]
  · simp [getStatus, hn]
  · intro ps hps
    simp [getProfile, hps, hn]

/-- **Cumulative elected**: the answer for round `k` is the concatenation of the per-round records
up to `k`; consequently it only grows from one round to the next. -/
theorem C09_elected_cumulative (st : States) (k : Nat) (hk : k < st.length) :
    getElected st k = .ok ((st.take (k + 1)).flatMap (·.elected)) ∧
    (∀ s, st[k + 1]? = some s →
      getElected st (k + 1 : Nat) = .ok ((st.take (k + 1)).flatMap (·.elected) ++ s.elected)) := by
  have hn := (C09_normIndex st.length k).2.1 (by omega) (by exact_mod_cast hk)
  constructor
  · simp [getElected, hn]
  · intro s hs
    have hk1 : k + 1 < st.length := by
      by_contra hc
      rw [List.getElem?_eq_none_iff.2 (by omega)] at hs
      cases hs
    have hn1 := (C09_normIndex st.length ((k + 1 : Nat) : Int)).2.1 (by omega) (by exact_mod_cast hk1)
    simp only [getElected, hn1, bind, Outcome.bind, pure, Int.toNat_natCast]
    congr 1
    rw [List.take_add_one, List.flatMap_append, hs]
    simp

/-- **Cumulative eliminated**: most recent round first, each round's groups reversed. -/
theorem C09_eliminated_cumulative (st : States) (k : Nat) (hk : k < st.length) :
    getEliminated st k = .ok ((st.take (k + 1)).reverse.flatMap (fun s => s.eliminated.reverse)) := by
  have hn := (C09_normIndex st.length k).2.1 (by omega) (by exact_mod_cast hk)
  simp [getEliminated, hn]

/-- **The ranking is elected ++ remaining ++ eliminated** with empty groups dropped. -/
theorem C09_ranking_is_concat (st : States) (r : Int) (e rem el : Ranking)
    (he : getElected st r = .ok e) (hr : getRemaining st r = .ok rem) (hl : getEliminated st r = .ok el) :
    getRanking st r = .ok ((e ++ rem ++ el).filter (fun s => !s.isEmpty)) := by
  simp [getRanking, he, hr, hl]

/-- non-vacuity on a three-round record -/
example :
    let st : States := [{ remaining := [[0], [1], [2]] }, { round := 1, remaining := [[1], [2]], elected := [[0]] },
                        { round := 2, remaining := [[1]], eliminated := [[2]] }]
    getElected st (-1) = .ok [[0]] ∧ getEliminated st 2 = .ok [[2]] ∧ getRanking st (-1) = .ok [[0], [1], [2]] ∧
    getElected st 3 = .raised .indexError ∧ getRemaining st (-4) = .raised .indexError := by decide +kernel

end VK
