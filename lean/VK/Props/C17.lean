/-
  Property C17 — randomised rules and random tiebreaks draw from the documented distributions.
  The laws are stated in `Dist` (finite rational distributions) under the named laws of the library
  primitives (see VK.Model.Dist); the correspondence check ties the *arguments* the implementation
  passes to those primitives to the ones the model uses.
-/
import VK.Lemmas.DistLemmas
import Mathlib.Data.List.Nodup

namespace VK
open Dist

/-- share of ballot `b` that goes to `c` when `b` is drawn: 1/k for each of the k candidates tied
in its first position -/
def firstShare (b : Ballot) (c : Cand) : Rat :=
  match b.ranking with
  | [] => 0
  | first :: _ => ((first.filter (· = c)).length : Rat) * (1 / (first.length : Rat))

/-- **RandomDictator step.** The probability that `c` wins the round is its share of the current
first-place weight, a tied first place being split evenly. -/
theorem C17_rd_step (p : Profile) (c : Cand) :
    (rdStepDist p).prob c =
      rsum (p.ballots.map (fun b => b.weight / totalWeight p.ballots * firstShare b c)) := by
  unfold rdStepDist
  rw [prob_bind]
  unfold weighted
  simp only [List.map_map, Function.comp_def]
  apply congrArg
  apply List.map_congr_left
  intro b _
  unfold firstShare totalWeight
  cases hb : b.ranking with
  | nil => simp [prob]
  | cons first rest => simp only [prob_uniform]

/-- the same, with the common denominator pulled out: Σ_b w_b·share_b(c) / W -/
theorem C17_rd_step' (p : Profile) (c : Cand) :
    (rdStepDist p).prob c =
      rsum (p.ballots.map (fun b => b.weight * firstShare b c)) / totalWeight p.ballots := by
  rw [C17_rd_step]
  have : (fun b : Ballot => b.weight / totalWeight p.ballots * firstShare b c) =
      fun b => (b.weight * firstShare b c) * (totalWeight p.ballots)⁻¹ := by
    funext b; rw [div_eq_mul_inv]; ring
  rw [this, rsum_map_mul_right, div_eq_mul_inv]

/-- the round's law is a probability distribution (total mass one) when every ballot has a
non-empty first position and the total weight is non-zero -/
theorem C17_rd_mass (p : Profile) (hW : totalWeight p.ballots ≠ 0)
    (hr : ∀ b ∈ p.ballots, ∃ f rest, b.ranking = f :: rest ∧ f ≠ []) :
    (rdStepDist p).mass = 1 := by
  unfold rdStepDist
  rw [mass_bind]
  have hinner : ∀ b ∈ p.ballots, mass (match b.ranking with
      | [] => (⟨[]⟩ : Dist Cand)
      | first :: _ => Dist.uniform first) = 1 := by
    intro b hb
    obtain ⟨f, rest, hf, hne⟩ := hr b hb
    rw [hf]; exact mass_uniform f hne
  have hw : mass (weighted (p.ballots.map (fun b => (b, b.weight)))) = 1 := by
    apply mass_weighted
    simpa [totalWeight, List.map_map, Function.comp_def] using hW
  rw [← hw]
  unfold mass
  congr 1
  simp only [weighted, List.map_map, Function.comp_def]
  apply List.map_congr_left
  intro b hb
  obtain ⟨f, rest, hf, hne⟩ := hr b hb
  have := mass_uniform f hne
  unfold mass at this
  simp only [hf]
  rw [this, mul_one]

/-- **BoostedRandomDictator step** with `n ≥ 2` remaining candidates: with probability `1/(n-1)` the
proportional-to-squares rule, otherwise the RandomDictator rule. -/
theorem C17_boosted_step (p : Profile) (scores : List (Cand × Rat)) (c : Cand)
    (hn : 2 ≤ p.cands.length) :
    (brdStepDist p scores).prob c =
      (1 / ((p.cands.length : Rat) - 1)) * (squaresDist scores).prob c +
      (1 - 1 / ((p.cands.length : Rat) - 1)) * (rdStepDist p).prob c := by
  unfold brdStepDist
  match hc : p.cands, hn with
  | [], hn => simp at hn
  | [_], hn => simp at hn
  | a :: b :: rest, _ =>
    simp only []
    rw [prob_bind]
    simp [Dist.bernoulli]

/-- the proportional-to-squares law: `score(c)² / Σ score(d)²` (candidates listed once) -/
theorem C17_squares (scores : List (Cand × Rat)) (hk : (scores.map (·.1)).Nodup) (c : Cand) (v : Rat)
    (hc : (c, v) ∈ scores) :
    (squaresDist scores).prob c = v * v / rsum (scores.map (fun cs => cs.2 * cs.2)) := by
  unfold squaresDist Dist.weighted
  simp only [List.map_map, Function.comp_def]
  generalize rsum (scores.map (fun cs => cs.2 * cs.2)) = T
  induction scores with
  | nil => cases hc
  | cons x xs ih =>
    rw [List.map_cons, List.nodup_cons] at hk
    rw [List.map_cons, prob_mk_cons]
    rcases List.mem_cons.1 hc with rfl | hmem
    · have hnot : prob ⟨xs.map (fun cs => (cs.1, cs.2 * cs.2 / T))⟩ c = 0 := by
        unfold prob
        have : (xs.map (fun cs => (cs.1, cs.2 * cs.2 / T))).filter (fun e => decide (e.1 = c)) = [] := by
          rw [List.filter_eq_nil_iff]
          intro e he
          obtain ⟨cs, hcs, rfl⟩ := List.mem_map.1 he
          simp only [decide_eq_true_eq]
          intro e'
          exact hk.1 (List.mem_map.2 ⟨cs, hcs, e'⟩)
        simp [this]
      simp [hnot]
    · have hne : x.1 ≠ c := by
        intro e; exact hk.1 (List.mem_map.2 ⟨(c, v), hmem, e.symm⟩)
      simp only [hne, if_false, zero_add]
      exact ih hk.2 hmem

/-- non-vacuity: ballots {A,B} > C with weight 3 and C with weight 1 -/
example : (rdStepDist { ballots := [{ ranking := [[0, 1], [2]], weight := 3 }, { ranking := [[2]], weight := 1 }],
                        cands := [0, 1, 2] }).prob 0 = 3 / 8 := by decide +kernel

end VK

namespace VK
open Dist

/-! ### a random tiebreak is a uniformly random order -/

theorem dropIdx_perm {α} (xs : List α) (j : Nat) (a : α) (h : xs[j]? = some a) :
    (a :: dropIdx xs j).Perm xs := by
  induction xs generalizing j with
  | nil => simp at h
  | cons x xs ih =>
    cases j with
    | zero => simp at h; subst h; simp [dropIdx]
    | succ k =>
      simp only [List.getElem?_cons_succ] at h
      simp only [dropIdx]
      exact (List.Perm.swap x a _).trans ((ih k h).cons x)

theorem dropIdx_length {α} (xs : List α) (j : Nat) (h : j < xs.length) :
    (dropIdx xs j).length + 1 = xs.length := by
  induction xs generalizing j with
  | nil => simp at h
  | cons x xs ih =>
    cases j with
    | zero => simp [dropIdx]
    | succ k => simp only [dropIdx, List.length_cons]; have := ih k (by simpa using h); omega

theorem prob_bind_cons {α} [DecidableEq α] (d : Dist (List α)) (b a : α) (τ : List α) :
    prob (Dist.bind d (fun rest => Dist.pure (b :: rest))) (a :: τ) = if b = a then prob d τ else 0 := by
  rw [prob_bind]
  obtain ⟨l⟩ := d
  by_cases hba : b = a
  · subst hba
    simp only [if_true]
    induction l with
    | nil => simp [prob]
    | cons e es ih =>
      obtain ⟨r, q⟩ := e
      rw [List.map_cons, rsum_cons, ih, prob_mk_cons, prob_pure]
      by_cases h : r = τ
      · simp [h]
      · simp [h]
  · simp only [hba, if_false]
    have : ∀ e : List α × Rat, e.2 * prob (Dist.pure (b :: e.1)) (a :: τ) = 0 := by
      intro e; rw [prob_pure]; simp [hba]
    simp [this, rsum_replicate]

theorem rsum_indicator (m j : Nat) (hj : j < m) (c : Rat) :
    rsum ((List.range m).map (fun i => if i = j then c else 0)) = c := by
  induction m with
  | zero => omega
  | succ k ih =>
    rw [List.range_succ, List.map_append, rsum_append]
    by_cases h : j = k
    · subst h
      have : rsum ((List.range j).map (fun i => if i = j then c else 0)) = 0 := by
        have : ∀ i ∈ List.range j, (if i = j then c else (0 : Rat)) = 0 := by
          intro i hi; have := List.mem_range.1 hi
          have : ¬ i = j := by omega
          simp [this]
        rw [List.map_congr_left this]; simp [rsum_replicate]
      simp [this]
    · have hk : j < k := by omega
      have hne : ¬ k = j := fun e => h e.symm
      simp [ih hk, hne]

theorem fact_pos' (m : Nat) : 0 < fact m := by
  induction m with
  | zero => simp [fact]
  | succ q ihq => simp only [fact]; exact Nat.mul_pos (Nat.succ_pos q) ihq

/-- **Sequential uniform picks give every order of a tied set the same probability `1/k!`.** -/
theorem C17_tiebreak_uniform (n : Nat) (xs σ : List Cand) (hnd : xs.Nodup) (hlen : xs.length = n)
    (hσ : σ.Perm xs) : (shuffleDist n xs).prob σ = 1 / (fact n : Rat) := by
  induction n generalizing xs σ with
  | zero =>
    have hx : xs = [] := List.length_eq_zero_iff.1 hlen
    subst hx
    have : σ = [] := List.Perm.eq_nil hσ
    subst this
    simp [shuffleDist, prob_pure, fact]
  | succ n ih =>
    have hne : xs ≠ [] := by intro e; rw [e] at hlen; simp at hlen
    cases σ with
    | nil => exact absurd (hσ.symm.eq_nil) hne
    | cons a τ =>
      have ha : a ∈ xs := hσ.subset (by simp)
      obtain ⟨j, hj, hja⟩ := List.getElem_of_mem ha
      have hj? : xs[j]? = some a := by rw [List.getElem?_eq_getElem hj, hja]
      have hempty : xs.isEmpty = false := by cases xs with
        | nil => exact absurd rfl hne
        | cons _ _ => rfl
      simp only [shuffleDist, hempty, Bool.false_eq_true, if_false]
      rw [prob_bind]
      simp only [Dist.uniform, List.map_map, Function.comp_def, List.length_range]
      refine (congrArg rsum (List.map_congr_left
        (g := fun i => if i = j then ((1 : Rat) / (xs.length : Rat)) * (1 / (fact n : Rat)) else 0) ?_)).trans ?_
      · intro i hi
        have hil : i < xs.length := List.mem_range.1 hi
        have hi? : xs[i]? = some xs[i] := List.getElem?_eq_getElem hil
        rw [hi?]
        simp only []
        rw [prob_bind_cons]
        by_cases hij : i = j
        · subst hij
          have hxa : xs[i] = a := hja
          simp only [hxa, if_true]
          have hperm : τ.Perm (dropIdx xs i) := by
            have h1 := dropIdx_perm xs i a hj?
            exact (hσ.trans h1.symm).cons_inv
          have hnd' : (dropIdx xs i).Nodup := by
            have h1 := dropIdx_perm xs i a hj?
            exact (List.nodup_cons.1 (h1.nodup_iff.2 hnd)).2
          have hlen' : (dropIdx xs i).length = n := by
            have := dropIdx_length xs i hil; omega
          rw [ih (dropIdx xs i) τ hnd' hlen' hperm]
        · have hne' : xs[i] ≠ a := by
            intro e
            apply hij
            exact (List.Nodup.getElem_inj_iff hnd).1 (e.trans hja.symm)
          simp [hne', hij]
      · rw [rsum_indicator xs.length j hj, hlen]
        simp only [fact]
        have h1 : ((n + 1 : Nat) : Rat) ≠ 0 := by positivity
        have h2 : ((fact n : Nat) : Rat) ≠ 0 := by
          exact_mod_cast (Nat.pos_iff_ne_zero.1 (fact_pos' n))
        push_cast
        field_simp

/-! ### several seats: the law of the winner sequence is the product of the round laws -/

/-- sequential composition: draw `c` from `d`, then the rest from `F c` -/
theorem prob_seq_cons (d : Dist Cand) (F : Cand → Dist (List Cand)) (c : Cand) (r : List Cand) :
    (Dist.bind d (fun c' => Dist.bind (F c') (fun rest => Dist.pure (c' :: rest)))).prob (c :: r) =
      d.prob c * (F c).prob r := by
  rw [prob_bind]
  simp only [prob_bind_cons]
  obtain ⟨l⟩ := d
  unfold Dist.prob
  simp only
  induction l with
  | nil => simp
  | cons e es ih =>
    simp only [List.map_cons, rsum_cons, List.filter_cons, ih]
    by_cases h : e.1 = c
    · simp only [h, if_true, decide_true, List.map_cons, rsum_cons]
      ring
    · simp only [h, if_false, decide_false, Bool.false_eq_true]
      ring

/-- law of the first `m` RandomDictator winners: a round on the current profile, then the remaining
seats on the profile without the winner (`remove_cand`, as `rdLoop` does) -/
def rdSeqDist : Nat → Profile → Dist (List Cand)
  | 0, _ => Dist.pure []
  | m + 1, p => Dist.bind (rdStepDist p) (fun c =>
      Dist.bind (rdSeqDist m (removeCand [c] p)) (fun rest => Dist.pure (c :: rest)))

/-- **Multi-seat RandomDictator.** The probability that the seats go to `c :: r` in this order is the
round law of `c` on the current profile times the probability of `r` on the profile with `c` removed:
the sequence law is the product of the round laws on the successively reduced profiles. -/
theorem C17_rd_sequence (m : Nat) (p : Profile) (c : Cand) (r : List Cand) :
    (rdSeqDist (m + 1) p).prob (c :: r) = (rdStepDist p).prob c * (rdSeqDist m (removeCand [c] p)).prob r := by
  rw [rdSeqDist]
  exact prob_seq_cons _ _ c r

/-- closed form for two seats -/
theorem C17_rd_two_seats (p : Profile) (c₁ c₂ : Cand) :
    (rdSeqDist 2 p).prob [c₁, c₂] = (rdStepDist p).prob c₁ * (rdStepDist (removeCand [c₁] p)).prob c₂ := by
  rw [C17_rd_sequence, C17_rd_sequence]
  simp [rdSeqDist, prob_pure]

end VK
