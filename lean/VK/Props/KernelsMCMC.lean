/-
  VK.Props.KernelsMCMC — the MCMC acceptance probabilities regenerated from /repo's current source equal the
  ones the model's chains (and their reversibility theorems, C16) use.
-/
import VK.Model.Generated.MCMC
import VK.Model.Dist
import VK.Model.Gen
import Mathlib.Algebra.Order.Field.Rat
import Mathlib.Tactic.Linarith
import Mathlib.Tactic.Ring

namespace VK

/-! ### MCMC acceptance probabilities (C16) -/

theorem rmin2_eq (a b : Rat) : Generated.rmin2 a b = Gen.rmin a b := rfl

/-- the source's acceptance probability for a swap that moves the bloc's own slate down is the one
the model's chain (and its reversibility theorem) uses, for every cohesion `c ≥ 0` -/
theorem kernel_slate_accept_down (c : Rat) (hc : 0 ≤ c) :
    Generated.slateAcceptDown c = (if c = 0 then 1 else Gen.rmin 1 ((1 - c) / c)) := by
  unfold Generated.slateAcceptDown
  by_cases h : c = 0
  · subst h; simp
  · have : c > 0 := lt_of_le_of_ne hc (Ne.symm h)
    simp only [h, if_false, rmin2_eq]
    first
      | simp only [this, if_true]
      | (simp [this])

/-- … and for the swap that moves it up, for every cohesion `c ≤ 1` -/
theorem kernel_slate_accept_up (c : Rat) (hc : c ≤ 1) :
    Generated.slateAcceptUp c = (if c = 1 then 1 else Gen.rmin 1 (c / (1 - c))) := by
  unfold Generated.slateAcceptUp
  by_cases h : c = 1
  · subst h; simp
  · have : c < 1 := lt_of_le_of_ne hc h
    simp only [h, if_false, rmin2_eq]
    first
      | simp only [this, if_true]
      | (simp [this])

/-- the model's slate chain uses exactly the source's two expressions -/
theorem kernel_slate_accept_used (c : Rat) (h0 : 0 ≤ c) (h1 : c ≤ 1) (t : List Bool) (j : Nat) :
    Gen.slateAccept c t j =
      (match t[j]?, t[j + 1]? with
       | some true, some false => some (Generated.slateAcceptDown c)
       | some false, some true => some (Generated.slateAcceptUp c)
       | some _, some _ => some 1
       | _, _ => none) := by
  unfold Gen.slateAccept
  rw [kernel_slate_accept_down c h0, kernel_slate_accept_up c h1]
  generalize t[j]? = a
  generalize t[j + 1]? = b
  rcases a with _ | (_ | _) <;> rcases b with _ | (_ | _) <;> rfl

/-- the source's name-BT acceptance probability is the model's -/
theorem kernel_bt_accept (x1 x2 : Rat) : Generated.btAccept x1 x2 = Gen.rmin 1 (x2 / x1) := by
  unfold Generated.btAccept
  first
    | rfl
    | simp only [rmin2_eq]

theorem kernel_bt_accept_used (x : List (Cand × Rat)) (r : List Cand) (j : Nat) (a b : Cand)
    (ha : r[j]? = some a) (hb : r[j + 1]? = some b) (hx : lookupScore x a ≠ 0) :
    Gen.btAccept x r j = some (Generated.btAccept (lookupScore x a) (lookupScore x b)) := by
  unfold Gen.btAccept
  simp only [ha, hb, hx, if_false, kernel_bt_accept]


end VK
