/-
  VK.Props.Kernels — the arithmetic kernels regenerated from /repo's current source
  (VK.Model.Generated, written by tools/extract_kernels.py on every check) equal the definitions of
  the hand-written model that the theorems of C02, C03, C07 and C17 are about. A change of one of
  these expressions in the source makes the corresponding proof fail at `lake build`.
-/
import VK.Model.Generated
import VK.Model.STV
import VK.Model.Dist
import Mathlib.Tactic.Ring
import Mathlib.Tactic.FieldSimp

namespace VK

/-- the source's Droop threshold is the model's -/
theorem kernel_threshold_droop (m : Nat) (N : Rat) :
    Generated.thresholdDroop m N = threshold .droop m N := by
  unfold Generated.thresholdDroop threshold
  first
    | rfl
    | (congr 1; ring)

/-- the source's Hare threshold is the model's -/
theorem kernel_threshold_hare (m : Nat) (N : Rat) :
    Generated.thresholdHare m N = threshold .hare m N := by
  unfold Generated.thresholdHare threshold
  first
    | rfl
    | (congr 1; ring)

/-- the source's transfer value is the factor the model's fractional transfer applies
(`applyTransfer`, `.fractional`: `b.2 * ((t - q) / t)`) -/
theorem kernel_transfer_value (t : Rat) (q : Int) : Generated.transferValue t q = (t - q) / t := by
  unfold Generated.transferValue
  first
    | rfl
    | ring
    | (field_simp)

/-- the model's fractional transfer really uses that factor -/
theorem kernel_transfer_value_used (cfg : STVCfg) (hop : List Cand) (q : Int) (sample : List (List Cand × Nat))
    (bs : List PBallot) (w : Cand) (hf : cfg.transfer = .fractional) (ht : tally bs hop w ≠ 0) :
    applyTransfer cfg hop q sample bs w =
      .ok (bs.map (fun b => if topOf hop b.1 = some w then (b.1, b.2 * Generated.transferValue (tally bs hop w) q) else b)) := by
  unfold applyTransfer
  simp only [hf, ht, if_false, kernel_transfer_value]

/-- the source's branch threshold of BoostedRandomDictator is the probability the model's law uses -/
theorem kernel_boosted_branch (n : Nat) : Generated.boostedBranch n = 1 / ((n : Rat) - 1) := by
  unfold Generated.boostedBranch
  first
    | rfl
    | ring

end VK
