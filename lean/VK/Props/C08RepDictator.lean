/-
  VK.Props.C08RepDictator — C08, ballot representation for RandomDictator and BoostedRandomDictator: with the same
  draws (the drawn ballot is named by its ranking, so the same draw makes sense for every representation), equivalent
  representations give the same rounds.
-/
import VK.Props.C08Rep
namespace VK

theorem dictatorPick_rep (cands : List Cand) (a b : List Ballot) (h : RepEq a b) (pick : Ranking) (pri : List Cand) :
    dictatorPick { ballots := a, cands := cands } pick pri = dictatorPick { ballots := b, cands := cands } pick pri := by
  unfold dictatorPick
  have h1 : a.isEmpty = b.isEmpty := isEmpty_rep a b h
  -- whether some ballot with positive weight carries the drawn ranking: all weights are positive
  have h2 : a.any (fun x => decide (x.ranking = pick) && decide (0 < x.weight)) =
      b.any (fun x => decide (x.ranking = pick) && decide (0 < x.weight)) := by
    have ha : a.any (fun x => decide (x.ranking = pick) && decide (0 < x.weight)) =
        a.any (fun x => decide (x.content.1 = pick)) := by
      rw [Bool.eq_iff_iff]; simp only [List.any_eq_true, Bool.and_eq_true, decide_eq_true_eq]
      exact ⟨fun ⟨x, hx, e, _⟩ => ⟨x, hx, e⟩, fun ⟨x, hx, e⟩ => ⟨x, hx, e, h.pos x hx⟩⟩
    have hb : b.any (fun x => decide (x.ranking = pick) && decide (0 < x.weight)) =
        b.any (fun x => decide (x.content.1 = pick)) := by
      rw [Bool.eq_iff_iff]; simp only [List.any_eq_true, Bool.and_eq_true, decide_eq_true_eq]
      exact ⟨fun ⟨x, hx, e, _⟩ => ⟨x, hx, e⟩, fun ⟨x, hx, e⟩ => ⟨x, hx, e, h.pos' x hx⟩⟩
    rw [ha, hb]
    exact any_of_same h.same (fun k => decide (k.1 = pick))
  simp only [h1, h2]

theorem rdLoop_rep (m : Nat) (ω : RDOracle) (fuel : Nat) (cands : List Cand) (a b : List Ballot) (h : RepEq a b)
    (n rnd : Nat) (acc : List RoundState) :
    rdLoop m ω fuel { ballots := a, cands := cands } n rnd acc = rdLoop m ω fuel { ballots := b, cands := cands } n rnd acc := by
  induction fuel generalizing cands a b n rnd acc with
  | zero => rfl
  | succ k ih =>
    simp only [rdLoop]
    split
    · rfl
    · rw [dictatorPick_rep cands a b h]
      cases dictatorPick { ballots := b, cands := cands } (ω.pick rnd) (ω.pri rnd) with
      | ok x =>
        obtain ⟨w, tbs⟩ := x
        simp only [Outcome.bind_ok]
        have hrc := h.removeCand [w]
        have hfp : firstPlaceVotes (removeCand [w] { ballots := a, cands := cands }) =
            firstPlaceVotes (removeCand [w] { ballots := b, cands := cands }) := by
          unfold removeCand; exact scoreRep_fpv _ _ _ hrc
        rw [hfp]
        cases firstPlaceVotes (removeCand [w] { ballots := b, cands := cands }) with
        | ok sc =>
          simp only [Outcome.bind_ok]
          unfold removeCand
          exact ih _ _ _ hrc _ _ _
        | raised e => rfl
        | oracleMismatch => rfl
        | outOfFuel => rfl
      | raised e => rfl
      | oracleMismatch => rfl
      | outOfFuel => rfl

/-- **C08 (ballot representation, RandomDictator, same draws).** -/
theorem C08_random_dictator_rep (cands : List Cand) (a b : List Ballot) (h : RepEq a b) (m : Int) (ω : RDOracle) :
    randomDictatorRun { ballots := a, cands := cands } m ω = randomDictatorRun { ballots := b, cands := cands } m ω := by
  unfold randomDictatorRun
  rw [rankingValid_rep cands a b h, scoreRep_fpv cands a b h]
  split
  · rfl
  · split
    · rfl
    · cases firstPlaceVotes { ballots := b, cands := cands } with
      | ok sc0 => simp only [Outcome.bind_ok]; exact rdLoop_rep _ ω _ cands a b h _ _ _
      | raised e => rfl
      | oracleMismatch => rfl
      | outOfFuel => rfl

theorem boostedPick_rep (cands : List Cand) (a b : List Ballot) (h : RepEq a b) (scores : List (Cand × Rat))
    (ω : RDOracle) (rnd : Nat) :
    boostedPick { ballots := a, cands := cands } scores ω rnd = boostedPick { ballots := b, cands := cands } scores ω rnd := by
  unfold boostedPick
  simp only [dictatorPick_rep cands a b h]

theorem brdLoop_rep (m : Nat) (ω : RDOracle) (fuel : Nat) (cands : List Cand) (a b : List Ballot) (h : RepEq a b)
    (scores : List (Cand × Rat)) (n rnd : Nat) (acc : List RoundState) :
    brdLoop m ω fuel { ballots := a, cands := cands } scores n rnd acc =
      brdLoop m ω fuel { ballots := b, cands := cands } scores n rnd acc := by
  induction fuel generalizing cands a b scores n rnd acc with
  | zero => rfl
  | succ k ih =>
    simp only [brdLoop]
    split
    · rfl
    · rw [boostedPick_rep cands a b h]
      cases boostedPick { ballots := b, cands := cands } scores ω rnd with
      | ok x =>
        obtain ⟨w, tbs⟩ := x
        simp only [Outcome.bind_ok]
        have hrc := h.removeCand [w]
        have hfp : firstPlaceVotes (removeCand [w] { ballots := a, cands := cands }) =
            firstPlaceVotes (removeCand [w] { ballots := b, cands := cands }) := by
          unfold removeCand; exact scoreRep_fpv _ _ _ hrc
        rw [hfp]
        cases firstPlaceVotes (removeCand [w] { ballots := b, cands := cands }) with
        | ok sc =>
          simp only [Outcome.bind_ok]
          unfold removeCand
          exact ih _ _ _ hrc _ _ _ _
        | raised e => rfl
        | oracleMismatch => rfl
        | outOfFuel => rfl
      | raised e => rfl
      | oracleMismatch => rfl
      | outOfFuel => rfl

/-- **C08 (ballot representation, BoostedRandomDictator, same draws).** -/
theorem C08_boosted_rep (cands : List Cand) (a b : List Ballot) (h : RepEq a b) (m : Int) (ω : RDOracle) :
    boostedRun { ballots := a, cands := cands } m ω = boostedRun { ballots := b, cands := cands } m ω := by
  unfold boostedRun
  rw [rankingValid_rep cands a b h, scoreRep_fpv cands a b h]
  split
  · rfl
  · split
    · rfl
    · cases firstPlaceVotes { ballots := b, cands := cands } with
      | ok sc0 => simp only [Outcome.bind_ok]; exact brdLoop_rep _ ω _ cands a b h _ _ _ _
      | raised e => rfl
      | oracleMismatch => rfl
      | outOfFuel => rfl

end VK
