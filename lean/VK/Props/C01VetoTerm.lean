/-
  C01 for PluralityVeto, termination. The rule loops for ever on some inputs (finding F-C01-f,
  witness `C01_veto_loops_at`); this file proves the guard under which it cannot:
  if all candidates are to be seated, or at least m + 1 candidates have a first-place vote, then for
  every tiebreak, processing order and sample stream the run ends with a result or an exception —
  the model never runs out of fuel.

  The argument: a full pass of the voters must strike somebody, because the tallies add up to the
  number of ballots that still rank a candidate and every such ballot takes one point away
  (`vetoLoop_must_strike`); so every round after the first removes exactly one candidate, the first
  removes the zero-tally candidates and at most one more, and the number of standing candidates
  walks down to m without jumping below it.
-/
import VK.Props.C01Veto
import VK.Props.C01Composite
import VK.Lemmas.Fill

namespace VK

/-! ### a full pass must strike -/

/-- total of the positive tallies -/
def posSum (sc : List (Cand × Rat)) : Rat := rsum (sc.map (fun cs => if 0 < cs.2 then cs.2 else 0))

theorem posSum_nonneg (sc : List (Cand × Rat)) : 0 ≤ posSum sc := by
  unfold posSum
  apply rsum_nonneg
  intro x hx
  obtain ⟨cs, _, rfl⟩ := List.mem_map.1 hx
  split
  · rename_i h; exact le_of_lt h
  · exact le_refl _

theorem posSum_cons (x : Cand × Rat) (sc : List (Cand × Rat)) :
    posSum (x :: sc) = (if 0 < x.2 then x.2 else 0) + posSum sc := by
  unfold posSum
  rw [List.map_cons, rsum_cons]

/-- a decrement that leaves a positive tally lowers the positive total by exactly one and leaves it
positive -/
theorem decScore_posSum (c : Cand) (sc sc' : List (Cand × Rat)) (v : Rat)
    (h : decScore c sc = .ok (sc', v)) (hv : 0 < v) :
    posSum sc = posSum sc' + 1 ∧ 0 < posSum sc' := by
  induction sc generalizing sc' v with
  | nil => simp [decScore] at h
  | cons x rest ih =>
    obtain ⟨d, s⟩ := x
    unfold decScore at h
    split at h
    · injection h with h
      injection h with h1 h2
      subst h1
      have hs : 0 < s := by linarith
      rw [posSum_cons, posSum_cons]
      simp only [hs, if_true]
      have hv' : 0 < s - 1 := by rw [h2]; exact hv
      simp only [hv', if_true]
      have := posSum_nonneg rest
      constructor
      · ring
      · linarith
    · cases hr : decScore c rest with
      | ok rv =>
        obtain ⟨r, v'⟩ := rv
        simp only [hr, bind, Outcome.bind, pure] at h
        injection h with h
        injection h with h1 h2
        subst h1 h2
        obtain ⟨k1, k2⟩ := ih r v' hr hv
        rw [posSum_cons, posSum_cons, k1]
        constructor
        · ring
        · have : 0 ≤ (if 0 < s then s else 0) := by split <;> [exact le_of_lt (by assumption); exact le_refl _]
          linarith
      | raised e => simp [hr, bind, Outcome.bind] at h
      | oracleMismatch => simp [hr, bind, Outcome.bind] at h
      | outOfFuel => simp [hr, bind, Outcome.bind] at h

/-- does the ballot with index `bi` still rank somebody? -/
def liveAt (p : Profile) (bi : Nat) : Bool :=
  match p.ballots[bi]? with
  | some b => !b.ranking.isEmpty
  | none => false

/-- number of entries of the processing order that point at a ballot still ranking somebody -/
def liveCount (p : Profile) (order : List Nat) : Nat := (order.filter (liveAt p)).length

/-- **A pass without a strike takes fewer live ballots than the positive tallies add up to.** -/
theorem vetoLoop_no_strike (p : Profile) (tb : Option TB) (order : List Nat) (i : Nat)
    (sc : List (Cand × Rat)) (smp : List (List Cand)) (tbs : List (List Cand × Ranking))
    (out : VetoOut)
    (h : vetoLoop p tb order i sc smp tbs = .ok out) (hc : out.struck = none) :
    liveCount p order = 0 ∨ ((liveCount p order : Nat) : Rat) < posSum sc := by
  induction order generalizing i sc smp tbs with
  | nil => left; rfl
  | cons bi rest ih =>
    unfold vetoLoop at h
    split at h
    · cases h
    · rename_i b hb
      split at h
      · -- exhausted ballot: skipped
        rename_i hlast
        have hl : liveAt p bi = false := by
          unfold liveAt
          rw [hb]
          have : b.ranking = [] := by simpa using hlast
          simp [this]
        have : liveCount p (bi :: rest) = liveCount p rest := by
          unfold liveCount; simp [hl]
        rw [this]
        exact ih _ _ _ _ h
      · rename_i lastPos hlast
        have hl : liveAt p bi = true := by
          unfold liveAt
          rw [hb]
          cases hr : b.ranking with
          | nil => rw [hr] at hlast; cases hlast
          | cons _ _ => simp [hr]
        have hcount : liveCount p (bi :: rest) = liveCount p rest + 1 := by
          unfold liveCount; simp [hl]
        have stepfact : ∀ (least : Cand) (smp' : List (List Cand)) (tbs' : List (List Cand × Ranking)),
            (do
              let (sc', v) ← decScore least sc
              if v ≤ 0 then pure (⟨some least, i, smp', tbs'⟩ : VetoOut)
              else vetoLoop p tb rest (i + 1) sc' smp' tbs') = .ok out →
            liveCount p (bi :: rest) = 0 ∨ ((liveCount p (bi :: rest) : Nat) : Rat) < posSum sc := by
          intro least smp' tbs' hs
          right
          cases hd : decScore least sc with
          | ok r =>
            obtain ⟨sc', v⟩ := r
            simp only [hd, bind, Outcome.bind] at hs
            split at hs
            · simp only [pure] at hs
              injection hs with hs
              subst hs
              cases hc
            · rename_i hv
              have hv' : 0 < v := lt_of_not_ge hv
              obtain ⟨k1, k2⟩ := decScore_posSum least sc sc' v hd hv'
              rw [hcount, k1]
              push_cast
              rcases ih _ _ _ _ hs with h0 | hlt
              · rw [h0]; push_cast; linarith
              · linarith
          | raised e => simp [hd, bind, Outcome.bind] at hs
          | oracleMismatch => simp [hd, bind, Outcome.bind] at hs
          | outOfFuel => simp [hd, bind, Outcome.bind] at hs
        split at h
        · split at h
          · cases h
          · rename_i t
            cases ht : tiebreakSetS smp lastPos (tiebreakProfile p) t with
            | ok r =>
              obtain ⟨rk, smp'⟩ := r
              simp only [ht, bind, Outcome.bind] at h
              split at h
              · exact stepfact _ _ _ h
              · cases h
            | raised e => simp [ht, bind, Outcome.bind] at h
            | oracleMismatch => simp [ht, bind, Outcome.bind] at h
            | outOfFuel => simp [ht, bind, Outcome.bind] at h
        · split at h
          · exact stepfact _ _ _ h
          · cases h

/-! ### the first-place tallies add up to the number of ballots -/

theorem positionAlloc_nonneg (v : List Rat) (hv : ∀ x ∈ v, 0 ≤ x) (r : Ranking) (i : Nat) :
    ∀ sa ∈ positionAlloc v i r, 0 ≤ sa.2 := by
  induction r generalizing i with
  | nil => simp [positionAlloc]
  | cons s rest ih =>
    intro sa hsa
    simp only [positionAlloc, List.mem_cons] at hsa
    rcases hsa with h | h
    · rw [h]
      simp only
      apply div_nonneg
      · apply rsum_nonneg
        intro x hx
        exact hv x (List.mem_of_mem_drop (List.mem_of_mem_take hx))
      · exact_mod_cast Nat.zero_le _
    · exact ih _ sa h

theorem ballotPoints_nonneg (v : List Rat) (hv : ∀ x ∈ v, 0 ≤ x) (r : Ranking) (c : Cand) :
    0 ≤ ballotPoints v r c := by
  unfold ballotPoints
  apply rsum_nonneg
  intro x hx
  obtain ⟨sa, hsa, rfl⟩ := List.mem_map.1 hx
  exact positionAlloc_nonneg v hv r 0 sa (List.mem_filter.1 hsa).1

theorem fpvVector_nonneg (n : Nat) : ∀ x ∈ fpvVector n, 0 ≤ x := by
  intro x hx
  unfold fpvVector at hx
  rcases List.mem_cons.1 hx with h | h
  · rw [h]; decide
  · rw [(List.mem_replicate.1 h).2]

theorem rsum_take_fpv (n k : Nat) (hk : 1 ≤ k) : rsum ((fpvVector n).take k) = 1 := by
  obtain ⟨j, rfl⟩ : ∃ j, k = j + 1 := ⟨k - 1, by omega⟩
  unfold fpvVector
  rw [List.take_succ_cons, rsum_cons]
  have : rsum ((List.replicate n (0 : Rat)).take j) = 0 := by
    apply rsum_zeros
    intro x hx
    exact (List.mem_replicate.1 (List.mem_of_mem_take hx)).2
  rw [this]; simp

theorem posSum_of_nonneg (sc : List (Cand × Rat)) (h : ∀ cs ∈ sc, 0 ≤ cs.2) :
    posSum sc = rsum (sc.map (·.2)) := by
  unfold posSum
  congr 1
  apply List.map_congr_left
  intro cs hcs
  split
  · rfl
  · rename_i hn
    have := h cs hcs
    linarith [le_of_not_gt hn]

/-- the completed ballot (`add_missing_cands`) is again a ranking without repeats over the
declared candidates with non-empty positions, and it lists somebody -/
theorem addMissing_wf (cands : List Cand) (hc : cands.Nodup) (b : Ballot)
    (hne : b.ranking ≠ []) (hpos : ∀ s ∈ b.ranking, s ≠ []) (hnd : b.ranking.flatten.Nodup)
    (hsub : ∀ c ∈ b.ranking.flatten, c ∈ cands) :
    (addMissingBallot cands b).ranking.flatten.Nodup ∧
    (∀ c ∈ (addMissingBallot cands b).ranking.flatten, c ∈ cands) ∧
    (∀ s ∈ (addMissingBallot cands b).ranking, s ≠ []) ∧
    1 ≤ (addMissingBallot cands b).ranking.flatten.length := by
  have hlen : 1 ≤ b.ranking.flatten.length := by
    cases hr : b.ranking with
    | nil => exact absurd hr hne
    | cons s rest =>
      have hs : s ≠ [] := hpos s (by rw [hr]; simp)
      cases s with
      | nil => exact absurd rfl hs
      | cons x xs => simp
  unfold addMissingBallot
  simp only
  split
  · exact ⟨hnd, hsub, hpos, hlen⟩
  · rename_i hmiss
    have hm : missingCands cands b.ranking ≠ [] := by simpa using hmiss
    refine ⟨?_, ?_, ?_, ?_⟩
    · rw [List.flatten_append]
      simp only [List.flatten_cons, List.flatten_nil, List.append_nil]
      refine List.nodup_append.2 ⟨hnd, hc.filter _, ?_⟩
      intro a ha b' hb' hab
      subst hab
      unfold missingCands at hb'
      have := (List.mem_filter.1 hb').2
      simp only [Bool.not_eq_true', List.contains_eq_mem, decide_eq_false_iff_not] at this
      exact this ha
    · intro c hcm
      rw [List.flatten_append] at hcm
      simp only [List.flatten_cons, List.flatten_nil, List.append_nil, List.mem_append] at hcm
      rcases hcm with h | h
      · exact hsub c h
      · exact (List.mem_filter.1 h).1
    · intro s hs
      rcases List.mem_append.1 hs with h | h
      · exact hpos s h
      · simp only [List.mem_singleton] at h; rw [h]; exact hm
    · rw [List.flatten_append, List.length_append]; omega

/-- **The first-place tallies of unit ballots add up to the number of ballots.** -/
theorem fpv_posSum (q : Profile) (sc : List (Cand × Rat)) (h : firstPlaceVotes q = .ok sc)
    (hc : q.cands.Nodup)
    (hne : ∀ b ∈ q.ballots, b.ranking ≠ [])
    (hpos : ∀ b ∈ q.ballots, ∀ s ∈ b.ranking, s ≠ [])
    (hnd : ∀ b ∈ q.ballots, b.ranking.flatten.Nodup)
    (hsub : ∀ b ∈ q.ballots, ∀ c ∈ b.ranking.flatten, c ∈ q.cands)
    (hw : ∀ b ∈ q.ballots, b.weight = 1) :
    posSum sc = (q.ballots.length : Rat) ∧ ∀ cs ∈ sc, 0 ≤ cs.2 := by
  have hspec := C04_score_spec q (fpvVector q.cands.length) sc h
  rw [padVector_fpv] at hspec
  have hnn : ∀ cs ∈ sc, 0 ≤ cs.2 := by
    intro cs hcs
    rw [hspec] at hcs
    obtain ⟨c, _, rfl⟩ := List.mem_map.1 hcs
    simp only
    apply rsum_nonneg
    intro x hx
    obtain ⟨b, hb, rfl⟩ := List.mem_map.1 hx
    rw [hw b hb, mul_one]
    exact ballotPoints_nonneg _ (fpvVector_nonneg _) _ _
  refine ⟨?_, hnn⟩
  rw [posSum_of_nonneg sc hnn, hspec]
  simp only [List.map_map, Function.comp_def]
  rw [rsum_comm]
  have : ∀ b ∈ q.ballots, rsum (q.cands.map (fun c =>
      ballotPoints (fpvVector q.cands.length) (addMissingBallot q.cands b).ranking c * b.weight)) = 1 := by
    intro b hb
    obtain ⟨w1, w2, w3, w4⟩ := addMissing_wf q.cands hc b (hne b hb) (hpos b hb) (hnd b hb) (hsub b hb)
    rw [rsum_map_mul_right, C04_ballot_total _ _ _ hc w1 w2 w3, rsum_take_fpv _ _ w4, hw b hb]
    simp
  rw [show rsum (q.ballots.map (fun b => rsum (q.cands.map (fun c =>
      ballotPoints (fpvVector q.cands.length) (addMissingBallot q.cands b).ranking c * b.weight)))) =
      rsum (q.ballots.map (fun _ => (1 : Rat))) from by
        congr 1
        apply List.map_congr_left
        intro b hb
        exact this b hb]
  rw [rsum_const_mul]; simp

/-! ### nothing a round calls can run out of fuel -/

theorem noFuel_decScore (c : Cand) (sc : List (Cand × Rat)) : NoFuel (decScore c sc) := by
  induction sc with
  | nil => exact noFuel_raised _
  | cons x rest ih =>
    obtain ⟨d, s⟩ := x
    unfold decScore
    split
    · exact noFuel_ok _
    · exact noFuel_bind _ _ ih (fun _ => noFuel_pure _)

theorem noFuel_breakGroupsS (smp : List (List Cand)) (r : Ranking) : NoFuel (breakGroupsS smp r) := by
  induction r generalizing smp with
  | nil => exact noFuel_ok _
  | cons g gs ih =>
    unfold breakGroupsS
    split
    · exact noFuel_bind _ _ (ih _) (fun _ => noFuel_pure _)
    · split
      · exact noFuel_mismatch
      · exact noFuel_bind _ _ (noFuel_orderBy _ _) (fun _ => noFuel_bind _ _ (ih _) (fun _ => noFuel_pure _))

theorem noFuel_tiebreakSetS (smp : List (List Cand)) (s : List Cand) (p : Profile) (tb : TB) :
    NoFuel (tiebreakSetS smp s p tb) := by
  unfold tiebreakSetS
  split
  · split
    · exact noFuel_mismatch
    · exact noFuel_bind _ _ (noFuel_orderBy _ _) (fun _ => noFuel_pure _)
  · simp only
    split
    · exact noFuel_bind _ _ (noFuel_scoreFromRankings _ _) (fun _ => noFuel_breakGroupsS _ _)
    · exact noFuel_bind _ _ (noFuel_scoreFromRankings _ _) (fun _ => noFuel_breakGroupsS _ _)

theorem noFuel_vetoLoop (p : Profile) (tb : Option TB) (order : List Nat) (i : Nat)
    (sc : List (Cand × Rat)) (smp : List (List Cand)) (tbs : List (List Cand × Ranking)) :
    NoFuel (vetoLoop p tb order i sc smp tbs) := by
  induction order generalizing i sc smp tbs with
  | nil =>
    unfold vetoLoop
    split
    · exact noFuel_raised _
    · exact noFuel_ok _
  | cons bi rest ih =>
    unfold vetoLoop
    split
    · exact noFuel_mismatch
    · split
      · exact ih _ _ _ _
      · have stepfact : ∀ (least : Cand) (smp' : List (List Cand)) (tbs' : List (List Cand × Ranking)),
            NoFuel (do
              let (sc', v) ← decScore least sc
              if v ≤ 0 then pure (⟨some least, i, smp', tbs'⟩ : VetoOut)
              else vetoLoop p tb rest (i + 1) sc' smp' tbs') := by
          intro least smp' tbs'
          refine noFuel_bind _ _ (noFuel_decScore _ _) ?_
          rintro ⟨sc', v⟩
          simp only
          split
          · exact noFuel_pure _
          · exact ih _ _ _ _
        simp only
        split
        · split
          · exact noFuel_raised _
          · refine noFuel_bind _ _ (noFuel_tiebreakSetS _ _ _ _) ?_
            rintro ⟨rk, smp'⟩
            simp only
            split
            · exact stepfact _ _ _
            · exact noFuel_mismatch
        · split
          · exact stepfact _ _ _
          · exact noFuel_raised _

theorem noFuel_pvRound (tb : Option TB) (st : PVState) (prev : RoundState) : NoFuel (pvRound tb st prev) := by
  unfold pvRound
  refine noFuel_bind _ _ (noFuel_vetoLoop _ _ _ _ _ _ _) ?_
  intro out
  exact noFuel_bind _ _ (noFuel_scoreFromRankings _ _) (fun _ => noFuel_pure _)

/-! ### the shape of a round -/

/-- what a successful round did, spelled out -/
theorem pvRound_shape (tb : Option TB) (st st' : PVState) (prev s : RoundState)
    (h : pvRound tb st prev = .ok (st', s)) :
    ∃ out sc elimNow, vetoLoop st.prof tb st.order 0 prev.scores st.samples [] = .ok out ∧
      elimNow = zeroOf prev ++ out.struck.toList ∧
      firstPlaceVotes (scoreProfile (removeCand elimNow st.prof (cond := false) (leaveZero := true))) = .ok sc ∧
      st' = { prof := removeCand elimNow st.prof (cond := false) (leaveZero := true),
              order := st.order.drop (out.index + 1) ++ st.order.take (out.index + 1),
              elim := sortCands (st.elim ++ elimNow), samples := out.samples } ∧
      s = pvRecord prev elimNow out.tiebreaks sc := by
  unfold pvRound at h
  cases hv : vetoLoop st.prof tb st.order 0 prev.scores st.samples [] with
  | raised e => simp [hv, bind, Outcome.bind] at h
  | oracleMismatch => simp [hv, bind, Outcome.bind] at h
  | outOfFuel => simp [hv, bind, Outcome.bind] at h
  | ok out =>
    simp only [hv, bind, Outcome.bind] at h
    cases hs : out.struck with
    | none =>
      simp only [hs] at h
      cases hf : firstPlaceVotes (scoreProfile (removeCand (zeroOf prev) st.prof (cond := false) (leaveZero := true))) with
      | ok sc =>
        unfold zeroOf at hf
        simp only [hf, pure] at h
        injection h with h
        injection h with h1 h2
        refine ⟨out, sc, zeroOf prev, rfl, by simp [hs], ?_, ?_, ?_⟩
        · unfold zeroOf; exact hf
        · rw [← h1]; rfl
        · rw [← h2]; rfl
      | raised e => unfold zeroOf at hf; simp [hf] at h
      | oracleMismatch => unfold zeroOf at hf; simp [hf] at h
      | outOfFuel => unfold zeroOf at hf; simp [hf] at h
    | some c0 =>
      simp only [hs] at h
      cases hf : firstPlaceVotes (scoreProfile (removeCand (zeroOf prev ++ [c0]) st.prof (cond := false) (leaveZero := true))) with
      | ok sc =>
        unfold zeroOf at hf
        simp only [hf, pure] at h
        injection h with h
        injection h with h1 h2
        refine ⟨out, sc, zeroOf prev ++ [c0], rfl, by simp [hs], ?_, ?_, ?_⟩
        · unfold zeroOf; exact hf
        · rw [← h1]; rfl
        · rw [← h2]; rfl
      | raised e => unfold zeroOf at hf; simp [hf] at h
      | oracleMismatch => unfold zeroOf at hf; simp [hf] at h
      | outOfFuel => unfold zeroOf at hf; simp [hf] at h

/-! ### the strengthened invariant: unit weights, no repeats, the order is a rearrangement, the tallies add up -/

structure PvWF2 (p : Profile) : Prop where
  unitw : ∀ b ∈ p.ballots, b.ranking ≠ [] → b.weight = 1
  nodupb : ∀ b ∈ p.ballots, b.ranking.flatten.Nodup

theorem pvWF2_remove (removed : List Cand) (p : Profile) (h : PvWF2 p) :
    PvWF2 (removeCand removed p (cond := false) (leaveZero := true)) := by
  refine ⟨?_, ?_⟩
  all_goals
    intro b' hb'
    rw [removeCand_veto_ballots] at hb'
    obtain ⟨b, hb, rfl⟩ := List.mem_map.1 hb'
  · intro hne
    unfold scrubBallot at hne ⊢
    simp only at hne ⊢
    split
    · rename_i hif
      simp [hif] at hne
    · apply h.unitw b hb
      intro e
      rename_i hif
      simp only [hif, Bool.false_eq_true, if_false] at hne
      rw [e, scrubRanking_nil] at hne
      exact hne rfl
  · unfold scrubBallot
    simp only
    split
    · simp
    · simp only
      rw [C12_order]
      exact (h.nodupb b hb).filter _

/-- the ballots that still rank somebody -/
def liveBallots (p : Profile) : List Ballot := p.ballots.filter (fun b => !b.ranking.isEmpty)

theorem liveCount_range_aux (l : List Ballot) :
    ((List.range l.length).filter (fun i => match l[i]? with
      | some b => !b.ranking.isEmpty
      | none => false)).length = (l.filter (fun b => !b.ranking.isEmpty)).length := by
  induction l with
  | nil => rfl
  | cons x xs ih =>
    rw [List.length_cons, List.range_succ_eq_map, List.filter_cons]
    simp only [List.getElem?_cons_zero]
    rw [List.filter_map]
    simp only [Function.comp_def, List.getElem?_cons_succ]
    rw [List.filter_cons]
    split <;> simp [ih]

theorem liveCount_range (p : Profile) : liveCount p (List.range p.ballots.length) = (liveBallots p).length := by
  unfold liveCount liveBallots liveAt
  exact liveCount_range_aux p.ballots

structure PvInv2 (st : PVState) (prev : RoundState) : Prop where
  wf2 : PvWF2 st.prof
  order : st.order.Perm (List.range st.prof.ballots.length)
  sum : posSum prev.scores = ((liveBallots st.prof).length : Rat)

theorem liveCount_order (st : PVState) (prev : RoundState) (inv2 : PvInv2 st prev) :
    liveCount st.prof st.order = (liveBallots st.prof).length := by
  rw [← liveCount_range]
  unfold liveCount
  exact (inv2.order.filter _).length_eq

/-- tallies of the ballots that still rank somebody add up to their number -/
theorem scoreProfile_sum (p : Profile) (h : PvWF p) (h2 : PvWF2 p) (sc : List (Cand × Rat))
    (hf : firstPlaceVotes (scoreProfile p) = .ok sc) : posSum sc = ((liveBallots p).length : Rat) := by
  have hb : (scoreProfile p).ballots = liveBallots p := rfl
  have := fpv_posSum (scoreProfile p) sc hf (sortCands_nodup _) ?_ ?_ ?_ ?_ ?_
  · rw [this.1, hb]
  all_goals
    intro b hbm
    rw [hb] at hbm
    obtain ⟨hbp, hlive⟩ := List.mem_filter.1 hbm
    have hne : b.ranking ≠ [] := by
      intro e; rw [e] at hlive; simp at hlive
  · exact hne
  · exact h.pos b hbp
  · exact h2.nodupb b hbp
  · intro c hc
    show c ∈ candsCast (liveBallots p)
    unfold candsCast
    rw [mem_sortCands]
    refine List.mem_flatMap.2 ⟨b, List.mem_filter.2 ⟨hbm, ?_⟩, ?_⟩
    · rw [h2.unitw b hbp hne]; decide
    · unfold Ballot.cands; exact List.mem_append_left _ hc
  · exact h2.unitw b hbp hne

/-- **With a ballot still ranking somebody, the pass strikes a candidate; the strengthened invariant
is kept.** -/
theorem pvRound_progress (cands : List Cand) (hcn : cands.Nodup) (tb : Option TB) (st st' : PVState)
    (prev s : RoundState) (acc : List RoundState) (inv : PvInv cands st prev acc) (inv2 : PvInv2 st prev)
    (hlive : liveBallots st.prof ≠ [])
    (h : pvRound tb st prev = .ok (st', s)) :
    PvInv2 st' s ∧ ∃ c0, s.eliminated.flatten = sortCands (zeroOf prev ++ [c0]) := by
  have hinv' := pvRound_inv cands hcn tb st st' prev s acc inv h
  obtain ⟨out, sc, elimNow, hv, hel, hf, hst, hs⟩ := pvRound_shape tb st st' prev s h
  -- the pass must have struck somebody
  have hstruck : ∃ c0, out.struck = some c0 := by
    cases hsn : out.struck with
    | some c0 => exact ⟨c0, rfl⟩
    | none =>
      exfalso
      have hlen : 0 < (liveBallots st.prof).length := List.length_pos_of_ne_nil hlive
      rcases vetoLoop_no_strike _ _ _ _ _ _ _ out hv hsn with h0 | hlt
      · rw [liveCount_order st prev inv2] at h0; omega
      · rw [liveCount_order st prev inv2, inv2.sum] at hlt
        exact lt_irrefl _ hlt
  obtain ⟨c0, hc0⟩ := hstruck
  have hel' : elimNow = zeroOf prev ++ [c0] := by rw [hel, hc0]; rfl
  subst hst hs
  refine ⟨⟨?_, ?_, ?_⟩, c0, ?_⟩
  · exact pvWF2_remove elimNow st.prof inv2.wf2
  · simp only
    rw [removeCand_veto_ballots, List.length_map]
    refine List.Perm.trans ?_ inv2.order
    have := List.take_append_drop (out.index + 1) st.order
    exact (List.perm_append_comm).trans (by rw [this])
  · exact scoreProfile_sum _ hinv'.wf (pvWF2_remove elimNow st.prof inv2.wf2) sc hf
  · simp only
    rw [← hel']
    split
    · rename_i hW
      have : sortCands elimNow = [] := by simpa using hW
      simp [this]
    · simp

/-! ### the loop ends -/

theorem sortCands_length_le (l : List Cand) : (sortCands l).length ≤ l.length := by
  have hins : ∀ (c : Cand) (l : List Cand), (insertSorted c l).length ≤ l.length + 1 := by
    intro c l
    induction l with
    | nil => simp [insertSorted]
    | cons x xs ih =>
      unfold insertSorted
      split
      · simp
      · split
        · simp
        · simp only [List.length_cons]; omega
  induction l with
  | nil => simp [sortCands]
  | cons x xs ih =>
    have : sortCands (x :: xs) = insertSorted x (sortCands xs) := rfl
    rw [this]
    have := hins x (sortCands xs)
    simp only [List.length_cons]; omega

theorem posSum_pos_of_mem (sc : List (Cand × Rat)) (cs : Cand × Rat) (h : cs ∈ sc) (hp : 0 < cs.2) :
    0 < posSum sc := by
  induction sc with
  | nil => cases h
  | cons x rest ih =>
    rw [posSum_cons]
    rcases List.mem_cons.1 h with e | e
    · subst e
      simp only [hp, if_true]
      have := posSum_nonneg rest
      linarith
    · have := ih e
      have h0 : 0 ≤ (if 0 < x.2 then x.2 else 0) := by
        split
        · rename_i hx; exact le_of_lt hx
        · exact le_refl _
      linarith

/-- number of candidates with a positive first-place tally -/
def positiveCount (sc : List (Cand × Rat)) : Nat := (sc.filter (fun cs => decide (0 < cs.2))).length

theorem zero_length (prev : RoundState) (h0 : prev.round = 0) :
    (zeroOf prev).length + positiveCount prev.scores = prev.scores.length := by
  unfold zeroOf positiveCount
  simp only [h0, if_true, List.length_map]
  have h1 := List.length_eq_length_filter_add (l := prev.scores) (fun cs => decide (cs.2 ≤ 0))
  have h2 : prev.scores.filter (fun cs => !decide (cs.2 ≤ 0)) = prev.scores.filter (fun cs => decide (0 < cs.2)) := by
    apply List.filter_congr
    intro cs _
    by_cases hc : cs.2 ≤ 0
    · simp [hc, not_lt.2 hc]
    · simp [hc, lt_of_not_ge hc]
  rw [h2] at h1
  omega

/-- **The loop never runs out of fuel** when the standing candidates are at least the seats, the fuel
covers the candidates still to be removed, and — before the first round — either everybody is to be
seated or at least `m + 1` candidates have a first-place vote. -/
theorem pvLoop_noFuel (cands : List Cand) (hcn : cands.Nodup) (m : Nat) (hm1 : 1 ≤ m) (tb : Option TB) (fuel : Nat)
    (st : PVState) (prev : RoundState) (acc : List RoundState)
    (inv : PvInv cands st prev acc) (inv2 : PvInv2 st prev)
    (hm : m ≤ st.prof.cands.length) (hfuel : st.prof.cands.length - m + 1 ≤ fuel)
    (hguard : prev.round = 0 → st.prof.cands.length = m ∨ m + 1 ≤ positiveCount prev.scores) :
    NoFuel (pvLoop m tb cands.length fuel st prev acc) := by
  induction fuel generalizing st prev acc with
  | zero => omega
  | succ fuel ih =>
    -- the standing candidates are the candidates not yet eliminated
    have hlenpart : st.prof.cands.length + (eliminatedIn acc).length = cands.length := by
      have := inv.part.length_eq
      simpa using this
    have helen : st.elim.length = (eliminatedIn acc).length := inv.elim.length_eq
    unfold pvLoop
    split
    · -- the last round
      rename_i hcond
      obtain ⟨older, hacc⟩ := inv.head
      have hgood := inv.good
      rw [hacc] at hgood
      obtain ⟨hperm, _⟩ := hgood
      rw [← hacc, inv.noelect, List.append_nil] at hperm
      have hlen : prev.remaining.flatten.length + (eliminatedIn acc).length = cands.length := by
        have := hperm.length_eq
        simpa using this
      have hfinE : electedIn ({ round := prev.round + 1, elected := prev.remaining } :: acc) = prev.remaining.flatten := by
        rw [electedIn_cons]; simp [inv.noelect]
      have hcount : (electedOf ({ round := prev.round + 1, elected := prev.remaining } :: acc)).length = m := by
        show (electedIn _).length = m
        rw [hfinE]; omega
      simp only [hcount, ge_iff_le, le_refl, if_true]
      split
      · exact noFuel_ok _
      · exact noFuel_mismatch
    · rename_i hcond
      have hgt : m < st.prof.cands.length := by omega
      cases hr : pvRound tb st prev with
      | raised e => simp only [bind, Outcome.bind]; exact noFuel_raised _
      | oracleMismatch => simp only [bind, Outcome.bind]; exact noFuel_mismatch
      | outOfFuel => exact absurd hr (noFuel_pvRound tb st prev)
      | ok r =>
        obtain ⟨st', s⟩ := r
        simp only [bind, Outcome.bind]
        have hinv' := pvRound_inv cands hcn tb st st' prev s acc inv hr
        -- some ballot still ranks somebody
        have hlive : liveBallots st.prof ≠ [] := by
          by_cases h0 : prev.round = 0
          · rcases hguard h0 with hg | hg
            · omega
            · have hpc : 0 < positiveCount prev.scores := by omega
              unfold positiveCount at hpc
              obtain ⟨cs, hcs⟩ := List.exists_mem_of_length_pos hpc
              obtain ⟨hcs1, hcs2⟩ := List.mem_filter.1 hcs
              have hpos := posSum_pos_of_mem prev.scores cs hcs1 (by simpa using hcs2)
              rw [inv2.sum] at hpos
              intro e
              rw [e] at hpos
              simp at hpos
          · have hne : st.prof.cands ≠ [] := by
              intro e; rw [e] at hgt; simp at hgt
            obtain ⟨c, hc⟩ := List.exists_mem_of_ne_nil _ hne
            obtain ⟨b, hb, hd, tl, hrk, _⟩ := inv.later h0 c hc
            intro e
            have : b ∈ liveBallots st.prof := List.mem_filter.2 ⟨hb, by simp [hrk]⟩
            rw [e] at this; cases this
        obtain ⟨hinv2', c0, hflat⟩ := pvRound_progress cands hcn tb st st' prev s acc inv inv2 hlive hr
        -- how many candidates were removed
        have hlenpart' : st'.prof.cands.length + (eliminatedIn (s :: acc)).length = cands.length := by
          have := hinv'.part.length_eq
          simpa using this
        have hsplit : st'.prof.cands.length + (sortCands (zeroOf prev ++ [c0])).length = st.prof.cands.length := by
          rw [eliminatedIn_cons, hflat, List.length_append] at hlenpart'
          omega
        have hW1 : 1 ≤ (sortCands (zeroOf prev ++ [c0])).length := by
          have : c0 ∈ sortCands (zeroOf prev ++ [c0]) := (mem_sortCands _ _).2 (by simp)
          exact List.length_pos_of_mem this
        have hWle : (sortCands (zeroOf prev ++ [c0])).length ≤ (zeroOf prev).length + 1 := by
          have := sortCands_length_le (zeroOf prev ++ [c0])
          simpa using this
        have hm' : m ≤ st'.prof.cands.length := by
          by_cases h0 : prev.round = 0
          · rcases hguard h0 with hg | hg
            · omega
            · have hz := zero_length prev h0
              have hk : prev.scores.length = st.prof.cands.length := by
                have := scoreFromRankings_keys _ _ _ (inv.first h0).1
                rw [← this, List.length_map]
              omega
          · have hz0 : (zeroOf prev).length = 0 := by unfold zeroOf; simp [h0]
            omega
        apply ih st' s (s :: acc) hinv' hinv2' hm' (by omega)
        intro h0
        have hsr : s.round = prev.round + 1 := by
          obtain ⟨out, sc, elimNow, _, _, _, _, hs⟩ := pvRound_shape tb st st' prev s hr
          rw [hs]
        omega

theorem perm_range_of_check (order : List Nat) (k : Nat) (h : isPermOfRange order k = true) :
    order.Perm (List.range k) := by
  unfold isPermOfRange at h
  simp only [Bool.and_eq_true, decide_eq_true_eq, List.all_eq_true, List.contains_iff_mem, List.mem_range] at h
  obtain ⟨hlen, hall⟩ := h
  have hsub : List.range k ⊆ order := fun i hi => hall i (List.mem_range.1 hi)
  have hsp : List.Subperm (List.range k) order := List.subperm_of_subset List.nodup_range hsub
  exact (hsp.perm_of_length_le (by simp [hlen])).symm

/-- **Termination guard for PluralityVeto.** For every profile with a duplicate-free candidate list whose
ballots mention only declared candidates, never one twice, and have no empty position: if all
candidates are to be seated or at least `m + 1` candidates have a first-place vote, then for every
tiebreak, processing order and sample stream the run ends with a result or an exception — never with
the endless loop of finding F-C01-f (whose witness `C01_veto_loops_at` has one candidate with a
first-place vote for two seats). -/
theorem C01_veto_terminates (p : Profile) (m : Int) (tb : Option TB) (ω : PVOracle)
    (hn : p.cands.Nodup)
    (hcast : ∀ b ∈ p.ballots, ∀ c ∈ b.ranking.flatten, c ∈ p.cands)
    (hpos : ∀ b ∈ p.ballots, ∀ s ∈ b.ranking, s ≠ [])
    (hnd : ∀ b ∈ p.ballots, b.ranking.flatten.Nodup)
    (hguard : ∀ sc0, firstPlaceVotes { ballots := decondense p.ballots, cands := p.cands } = .ok sc0 →
      m.toNat = p.cands.length ∨ m.toNat + 1 ≤ positiveCount sc0) :
    NoFuel (pluralityVetoRun p m tb ω) := by
  unfold pluralityVetoRun
  cases hv : pluralityVetoValidate p m tb with
  | raised e => simp only [bind, Outcome.bind]; exact noFuel_raised _
  | oracleMismatch => simp only [bind, Outcome.bind]; exact noFuel_mismatch
  | outOfFuel =>
    exfalso
    unfold pluralityVetoValidate at hv
    split at hv; · cases hv
    split at hv; · cases hv
    split at hv; · cases hv
    split at hv <;> cases hv
  | ok u =>
    simp only [bind, Outcome.bind]
    split; · exact noFuel_mismatch
    rename_i hperm
    have hperm' : isPermOfRange ω.order (decondense p.ballots).length = true := by simpa using hperm
    have hne : ∀ b ∈ p.ballots, b.ranking ≠ [] := by
      unfold pluralityVetoValidate at hv
      split at hv; · cases hv
      rename_i hany
      intro b hb e
      apply hany
      exact List.any_eq_true.2 ⟨b, hb, by simp [e]⟩
    have hmrange : 0 < m ∧ m ≤ p.cands.length := by
      unfold pluralityVetoValidate at hv
      split at hv; · cases hv
      split at hv; · cases hv
      split at hv
      · cases hv
      · rename_i hm
        simp only [Bool.or_eq_true, decide_eq_true_eq, not_or, not_le, not_lt] at hm
        exact hm
    cases hf : firstPlaceVotes { ballots := decondense p.ballots, cands := p.cands } with
    | raised e => exact noFuel_raised _
    | oracleMismatch => exact noFuel_mismatch
    | outOfFuel => exact absurd hf (noFuel_scoreFromRankings _ _)
    | ok sc0 =>
      simp only
      have hkeys : sc0.map (·.1) = p.cands :=
        scoreFromRankings_keys { ballots := decondense p.ballots, cands := p.cands } _ _ hf
      have hrem0 : (scoreToRanking sc0).flatten.Perm p.cands := by
        have := scoreToRanking_perm sc0
        rwa [hkeys] at this
      have hall : ∀ b' ∈ decondense p.ballots, b'.ranking ≠ [] := by
        intro b' hb'
        obtain ⟨b, hb, hr, _, _⟩ := mem_decondense _ b' hb'
        rw [hr]; exact hne b hb
      have inv : PvInv p.cands
          { prof := { ballots := decondense p.ballots, cands := p.cands }, order := ω.order, elim := [],
            samples := ω.samples }
          (initialState p.cands (some sc0)) [initialState p.cands (some sc0)] := by
        refine ⟨⟨hn, ?_, ?_, ?_, ?_⟩, ?_, ?_, ?_, ⟨[], rfl⟩, ?_, ?_, ?_, ⟨?_, trivial⟩⟩
        · intro b' hb' c hc
          obtain ⟨b, hb, hr, _, _⟩ := mem_decondense _ b' hb'
          rw [hr] at hc; exact hcast b hb c hc
        · intro b' hb' s hs
          obtain ⟨b, hb, hr, _, _⟩ := mem_decondense _ b' hb'
          rw [hr] at hs; exact hpos b hb s hs
        · intro b' hb' _
          obtain ⟨b, hb, _, hw, _⟩ := mem_decondense _ b' hb'
          rw [hw]; decide
        · intro b' hb'
          obtain ⟨b, hb, _, _, hs⟩ := mem_decondense _ b' hb'
          exact hs
        · simp [eliminatedIn, initialState]
        · simp [electedIn, initialState]
        · simp [eliminatedIn, initialState]
        · intro c hc
          simp only [initialState] at hc
          rw [hkeys] at hc; exact hc
        · intro _
          exact ⟨by simpa [initialState] using hf, hall⟩
        · intro h0; simp [initialState] at h0
        · simpa [initialState, electedIn, eliminatedIn] using hrem0
      have hsum := fpv_posSum { ballots := decondense p.ballots, cands := p.cands } sc0 hf hn hall
        (by intro b' hb' s hs
            obtain ⟨b, hb, hr, _, _⟩ := mem_decondense _ b' hb'
            rw [hr] at hs; exact hpos b hb s hs)
        (by intro b' hb'
            obtain ⟨b, hb, hr, _, _⟩ := mem_decondense _ b' hb'
            rw [hr]; exact hnd b hb)
        (by intro b' hb' c hc
            obtain ⟨b, hb, hr, _, _⟩ := mem_decondense _ b' hb'
            rw [hr] at hc; exact hcast b hb c hc)
        (by intro b' hb'
            obtain ⟨b, hb, _, hw, _⟩ := mem_decondense _ b' hb'
            exact hw)
      have inv2 : PvInv2
          { prof := { ballots := decondense p.ballots, cands := p.cands }, order := ω.order, elim := [],
            samples := ω.samples }
          (initialState p.cands (some sc0)) := by
        refine ⟨⟨?_, ?_⟩, perm_range_of_check _ _ hperm', ?_⟩
        · intro b' hb' _
          obtain ⟨b, hb, _, hw, _⟩ := mem_decondense _ b' hb'
          exact hw
        · intro b' hb'
          obtain ⟨b, hb, hr, _, _⟩ := mem_decondense _ b' hb'
          rw [hr]; exact hnd b hb
        · have hlive : liveBallots { ballots := decondense p.ballots, cands := p.cands } = decondense p.ballots := by
            unfold liveBallots
            apply List.filter_eq_self.2
            intro b' hb'
            have := hall b' hb'
            cases hr : b'.ranking with
            | nil => exact absurd hr this
            | cons _ _ => simp
          simp only [initialState]
          rw [hlive]; exact hsum.1
      have hmn : m.toNat ≤ p.cands.length := by omega
      refine pvLoop_noFuel p.cands hn m.toNat (by omega) tb _ _ _ _ inv inv2 hmn (by simp only; omega) ?_
      intro _
      simp only [initialState]
      exact (hguard sc0 hf).imp Eq.symm id

/-- non-vacuity: every hypothesis of `C01_veto_terminates`, the guard included, holds on `vetoProfile`
(three candidates, each with a first-place vote, one seat) -/
example : NoFuel (pluralityVetoRun vetoProfile 1 none { order := [2, 0, 3, 1] }) := by
  apply C01_veto_terminates
  · decide
  · decide
  · decide
  · decide
  · intro sc0 h
    have hv : firstPlaceVotes { ballots := decondense vetoProfile.ballots, cands := vetoProfile.cands } =
        .ok [(0, 2), (1, 1), (2, 1)] := by decide +kernel
    rw [hv] at h
    injection h with h
    subst h
    right
    decide +kernel

end VK
