/-
  C01 for PluralityVeto, termination. The rule loops for ever on some inputs (finding F-C01-f,
  witness `C01_veto_loops_at`); this file proves the guard under which it cannot:
  if all candidates are to be seated, or at least m + 1 candidates have a first-place vote, then for
  every tiebreak, processing order and sample stream the run ends with a result or an exception —
  the model never runs out of fuel.

  The argument: a full pass of the voters must strike somebody, because the tallies add up to the
  number of ballots that still rank a candidate and every such ballot takes one point away
  (`vetoLoop_must_strike`); so every round after the first removes exactly one candidate, the first
  removes the zero-tally candidates and at most one more, and the number of standing candidates
  walks down to m without jumping below it.
-/
import VK.Props.C01Veto

namespace VK

/-! ### a full pass must strike -/

/-- total of the positive tallies -/
def posSum (sc : List (Cand × Rat)) : Rat := rsum (sc.map (fun cs => if 0 < cs.2 then cs.2 else 0))

theorem posSum_nonneg (sc : List (Cand × Rat)) : 0 ≤ posSum sc := by
  unfold posSum
  apply rsum_nonneg
  intro x hx
  obtain ⟨cs, _, rfl⟩ := List.mem_map.1 hx
  split
  · rename_i h; exact le_of_lt h
  · exact le_refl _

theorem posSum_cons (x : Cand × Rat) (sc : List (Cand × Rat)) :
    posSum (x :: sc) = (if 0 < x.2 then x.2 else 0) + posSum sc := by
  unfold posSum
  rw [List.map_cons, rsum_cons]

/-- a decrement that leaves a positive tally lowers the positive total by exactly one and leaves it
positive -/
theorem decScore_posSum (c : Cand) (sc sc' : List (Cand × Rat)) (v : Rat)
    (h : decScore c sc = .ok (sc', v)) (hv : 0 < v) :
    posSum sc = posSum sc' + 1 ∧ 0 < posSum sc' := by
  induction sc generalizing sc' v with
  | nil => simp [decScore] at h
  | cons x rest ih =>
    obtain ⟨d, s⟩ := x
    unfold decScore at h
    split at h
    · injection h with h
      injection h with h1 h2
      subst h1
      have hs : 0 < s := by linarith
      rw [posSum_cons, posSum_cons]
      simp only [hs, if_true]
      have hv' : 0 < s - 1 := by rw [h2]; exact hv
      simp only [hv', if_true]
      have := posSum_nonneg rest
      constructor
      · ring
      · linarith
    · cases hr : decScore c rest with
      | ok rv =>
        obtain ⟨r, v'⟩ := rv
        simp only [hr, bind, Outcome.bind, pure] at h
        injection h with h
        injection h with h1 h2
        subst h1 h2
        obtain ⟨k1, k2⟩ := ih r v' hr hv
        rw [posSum_cons, posSum_cons, k1]
        constructor
        · ring
        · have : 0 ≤ (if 0 < s then s else 0) := by split <;> [exact le_of_lt (by assumption); exact le_refl _]
          linarith
      | raised e => simp [hr, bind, Outcome.bind] at h
      | oracleMismatch => simp [hr, bind, Outcome.bind] at h
      | outOfFuel => simp [hr, bind, Outcome.bind] at h

/-- does the ballot with index `bi` still rank somebody? -/
def liveAt (p : Profile) (bi : Nat) : Bool :=
  match p.ballots[bi]? with
  | some b => !b.ranking.isEmpty
  | none => false

/-- number of entries of the processing order that point at a ballot still ranking somebody -/
def liveCount (p : Profile) (order : List Nat) : Nat := (order.filter (liveAt p)).length

/-- **A pass without a strike takes fewer live ballots than the positive tallies add up to.** -/
theorem vetoLoop_no_strike (p : Profile) (tb : Option TB) (order : List Nat) (i : Nat)
    (sc : List (Cand × Rat)) (smp : List (List Cand)) (tbs : List (List Cand × Ranking))
    (out : VetoOut)
    (h : vetoLoop p tb order i sc smp tbs = .ok out) (hc : out.struck = none) :
    liveCount p order = 0 ∨ ((liveCount p order : Nat) : Rat) < posSum sc := by
  induction order generalizing i sc smp tbs with
  | nil => left; rfl
  | cons bi rest ih =>
    unfold vetoLoop at h
    split at h
    · cases h
    · rename_i b hb
      split at h
      · -- exhausted ballot: skipped
        rename_i hlast
        have hl : liveAt p bi = false := by
          unfold liveAt
          rw [hb]
          have : b.ranking = [] := by simpa using hlast
          simp [this]
        have : liveCount p (bi :: rest) = liveCount p rest := by
          unfold liveCount; simp [hl]
        rw [this]
        exact ih _ _ _ _ h
      · rename_i lastPos hlast
        have hl : liveAt p bi = true := by
          unfold liveAt
          rw [hb]
          cases hr : b.ranking with
          | nil => rw [hr] at hlast; cases hlast
          | cons _ _ => simp [hr]
        have hcount : liveCount p (bi :: rest) = liveCount p rest + 1 := by
          unfold liveCount; simp [hl]
        have stepfact : ∀ (least : Cand) (smp' : List (List Cand)) (tbs' : List (List Cand × Ranking)),
            (do
              let (sc', v) ← decScore least sc
              if v ≤ 0 then pure (⟨some least, i, smp', tbs'⟩ : VetoOut)
              else vetoLoop p tb rest (i + 1) sc' smp' tbs') = .ok out →
            liveCount p (bi :: rest) = 0 ∨ ((liveCount p (bi :: rest) : Nat) : Rat) < posSum sc := by
          intro least smp' tbs' hs
          right
          cases hd : decScore least sc with
          | ok r =>
            obtain ⟨sc', v⟩ := r
            simp only [hd, bind, Outcome.bind] at hs
            split at hs
            · simp only [pure] at hs
              injection hs with hs
              subst hs
              cases hc
            · rename_i hv
              have hv' : 0 < v := lt_of_not_ge hv
              obtain ⟨k1, k2⟩ := decScore_posSum least sc sc' v hd hv'
              rw [hcount, k1]
              push_cast
              rcases ih _ _ _ _ hs with h0 | hlt
              · rw [h0]; push_cast; linarith
              · linarith
          | raised e => simp [hd, bind, Outcome.bind] at hs
          | oracleMismatch => simp [hd, bind, Outcome.bind] at hs
          | outOfFuel => simp [hd, bind, Outcome.bind] at hs
        split at h
        · split at h
          · cases h
          · rename_i t
            cases ht : tiebreakSetS smp lastPos (tiebreakProfile p) t with
            | ok r =>
              obtain ⟨rk, smp'⟩ := r
              simp only [ht, bind, Outcome.bind] at h
              split at h
              · exact stepfact _ _ _ h
              · cases h
            | raised e => simp [ht, bind, Outcome.bind] at h
            | oracleMismatch => simp [ht, bind, Outcome.bind] at h
            | outOfFuel => simp [ht, bind, Outcome.bind] at h
        · split at h
          · exact stepfact _ _ _ h
          · cases h

end VK
