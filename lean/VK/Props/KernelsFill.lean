/-
  VK.Props.KernelsFill — `ballot_fill`'s share of one completion, regenerated from /repo's current source, is
  the weight the model's enumeration mirror `fillBallot` (C06_fill_correct) gives it.
-/
import VK.Model.Generated.Fill
import VK.Model.Pairwise

namespace VK

theorem kernel_fill_share_used (cands : List Cand) (bl : Ballot) :
    fillBallot cands bl =
      (if bl.ranking.length < cands.length then
        (perms (cands.filter (fun c => !bl.ranking.flatten.contains c))).map (fun o =>
          (bl.ranking.flatten ++ o,
           Generated.fillShare bl.weight (perms (cands.filter (fun c => !bl.ranking.flatten.contains c))).length))
       else [(bl.ranking.flatten, bl.weight)]) := by
  unfold fillBallot Generated.fillShare
  rfl

end VK
