/-
  Property C15 — closed-form model probabilities equal their definitions.
-/
import VK.Model.Interval
import VK.Lemmas.Sum
import Mathlib.Tactic.FieldSimp
import Mathlib.Algebra.BigOperators.Group.List.Lemmas

namespace VK

/-- any table of the form `w a / Z` with `Z = Σ w ≠ 0` sums to one -/
theorem C15_table_sums_to_one {α} (l : List α) (w : α → Rat) (hZ : rsum (l.map w) ≠ 0) :
    rsum (l.map (fun a => w a / rsum (l.map w))) = 1 := by
  have : (fun a => w a / rsum (l.map w)) = fun a => w a * (rsum (l.map w))⁻¹ := by
    funext a; rw [div_eq_mul_inv]
  rw [this, rsum_map_mul_right, mul_inv_cancel₀ hZ]

/-- **A preference interval is the positive supports rescaled to sum to one, zero-support
candidates set aside.** -/
theorem C15_normalize (supports : List (Cand × Rat)) (iv : Interval) (h : mkInterval supports = .ok iv) :
    rsum (iv.interval.map (·.2)) = 1 ∧
    iv.interval.map (·.1) = (supports.filter (fun cs => decide (0 < cs.2))).map (·.1) ∧
    iv.zeros = (supports.filter (fun cs => cs.2 = 0)).map (·.1) ∧
    ∀ cs ∈ iv.interval, 0 < cs.2 := by
  unfold mkInterval at h
  simp only [] at h
  split at h; · cases h
  rename_i hZ
  injection h with h
  subst h
  set pos := supports.filter (fun cs => decide (0 < cs.2)) with hpos
  refine ⟨?_, ?_, rfl, ?_⟩
  · have := C15_table_sums_to_one pos (·.2) hZ
    simpa [List.map_map, Function.comp_def] using this
  · simp [List.map_map, Function.comp_def]
  · intro cs hcs
    obtain ⟨c0, hc0, rfl⟩ := List.mem_map.1 hcs
    have hp : 0 < c0.2 := by simpa using (List.mem_filter.1 hc0).2
    have hT : 0 < rsum (pos.map (·.2)) := by
      have hnn : 0 ≤ rsum (pos.map (·.2)) := rsum_nonneg _ (by
        intro x hx; obtain ⟨c1, hc1, rfl⟩ := List.mem_map.1 hx
        exact le_of_lt (by simpa using (List.mem_filter.1 hc1).2))
      exact lt_of_le_of_ne hnn (Ne.symm hZ)
    exact div_pos hp hT

/-- **The name-Bradley-Terry table sums to one.** -/
theorem C15_bt_sum_one (x : List (Cand × Rat))
    (hZ : rsum ((perms (x.map (·.1))).map (fun r => powProd (r.map (lookupScore x)))) ≠ 0) :
    rsum ((btPdf x).map (·.2)) = 1 := by
  unfold btPdf
  simp only [List.map_map, Function.comp_def]
  exact C15_table_sums_to_one _ _ hZ

/-- **The slate-Bradley-Terry ballot-type table sums to one.** -/
theorem C15_slate_sum_one (a b : Nat) (c : Rat)
    (hZ : rsum ((slateTypes a b).map (fun t => powProd.rpowNat c (successes t) *
      powProd.rpowNat (1 - c) (a * b - successes t))) ≠ 0) :
    rsum ((slateBtPdf a b c).map (·.2)) = 1 := by
  unfold slateBtPdf
  simp only [List.map_map, Function.comp_def]
  exact C15_table_sums_to_one _ _ hZ

/-! ### the numerator `Π x_i^(m-1-i)` is the pairwise product up to a ranking-independent constant -/

/-- Π_{i<j} (x_i + x_j) -/
def pairSumProd : List Rat → Rat
  | [] => 1
  | x :: xs => (xs.map (fun y => x + y)).prod * pairSumProd xs

/-- Π_{i<j} x_i / (x_i + x_j): the defining Bradley-Terry weight of a ranking -/
def pairProd : List Rat → Rat
  | [] => 1
  | x :: xs => (xs.map (fun y => x / (x + y))).prod * pairProd xs

/-- **The pair-sum product does not depend on the order.** -/
theorem C15_pairSumProd_perm {l l' : List Rat} (h : l.Perm l') : pairSumProd l = pairSumProd l' := by
  induction h with
  | nil => rfl
  | cons x _ ih =>
    rename_i l₁ l₂ hp
    simp only [pairSumProd, ih, (hp.map (fun y => x + y)).prod_eq]
  | swap x y l =>
    simp only [pairSumProd, List.map_cons, List.prod_cons]
    rw [add_comm y x]; ring
  | trans _ _ ih1 ih2 => rw [ih1, ih2]

theorem rpowNat_eq (x : Rat) (n : Nat) : powProd.rpowNat x n = x ^ n := by
  induction n with
  | zero => simp [powProd.rpowNat]
  | succ k ih => simp [powProd.rpowNat, ih, pow_succ, mul_comm]

/-- **Defining formula.** For positive supports, the code's numerator of a ranking is its pairwise
product `Π_{i<j} x_i/(x_i+x_j)` times the pair-sum product, and the latter is the same for every
ranking of the same candidates — so after normalisation the table is the documented one. -/
theorem C15_bt_table (l : List Rat) (hpos : ∀ x ∈ l, 0 < x) :
    powProd l = pairProd l * pairSumProd l := by
  induction l with
  | nil => simp [powProd, pairProd, pairSumProd]
  | cons x xs ih =>
    have hx : 0 < x := hpos x (by simp)
    have hxs : ∀ y ∈ xs, 0 < y := fun y hy => hpos y (by simp [hy])
    simp only [powProd, pairProd, pairSumProd, ih hxs, rpowNat_eq]
    have key : ∀ (ys : List Rat), (∀ y ∈ ys, 0 < y) →
        x ^ ys.length = (ys.map (fun y => x / (x + y))).prod * (ys.map (fun y => x + y)).prod := by
      intro ys hys
      induction ys with
      | nil => simp
      | cons y ys ihy =>
        have hy : 0 < y := hys y (by simp)
        have hne : x + y ≠ 0 := by positivity
        simp only [List.length_cons, pow_succ, List.map_cons, List.prod_cons]
        rw [ihy (fun z hz => hys z (by simp [hz]))]
        field_simp
    rw [key xs hxs]; ring

/-- non-vacuity: supports 2,1,1 — the ranking (2,1,1) has numerator 2²·1 = 4 = (2/3·2/3·1/2)·(3·3·2) -/
example : powProd [2, 1, 1] = 4 ∧ pairProd [2, 1, 1] * pairSumProd [2, 1, 1] = 4 ∧
    pairSumProd [1, 2, 1] = pairSumProd [2, 1, 1] := by decide +kernel

/-! ### combining the slate intervals of a bloc -/

/-- the entries `combine_preference_intervals` normalises: every interval scaled by its share -/
def scaledEntries (ivs : List Interval) (props : List Rat) : List (Cand × Rat) :=
  (ivs.zip props).flatMap (fun ip => ip.1.interval.map (fun cs => (cs.1, cs.2 * ip.2)))

/-- **The combined interval.** Every candidate's combined support is its own support times its
slate's share, divided by the total of all such products with a positive value; the result sums to
one and zero-valued products are set aside. -/
theorem C15_combine (ivs : List Interval) (props : List Rat) (iv : Interval)
    (h : combineIntervals ivs props = .ok iv) :
    iv.interval = ((scaledEntries ivs props).filter (fun cs => decide (0 < cs.2))).map
      (fun cs => (cs.1, cs.2 / rsum (((scaledEntries ivs props).filter (fun cs => decide (0 < cs.2))).map (·.2)))) ∧
    rsum (iv.interval.map (·.2)) = 1 := by
  unfold combineIntervals at h
  simp only [bind, Outcome.bind] at h
  cases hm : mkInterval ((ivs.zip props).flatMap (fun ip => ip.1.interval.map (fun cs => (cs.1, cs.2 * ip.2)))) with
  | ok r =>
    rw [hm] at h
    simp only [pure] at h
    injection h with h
    subst h
    have hn := C15_normalize _ r hm
    refine ⟨?_, hn.1⟩
    unfold mkInterval at hm
    simp only [] at hm
    split at hm; · cases hm
    injection hm with hm
    subst hm
    rfl
  | raised e => rw [hm] at h; cases h
  | oracleMismatch => rw [hm] at h; cases h
  | outOfFuel => rw [hm] at h; cases h

/-- when every slate interval sums to one, the scaled entries add up to the shares: each slate
contributes exactly its share of the bloc's support before the final normalisation -/
theorem C15_scaled_total (ivs : List Interval) (props : List Rat) (hl : ivs.length = props.length)
    (h1 : ∀ iv ∈ ivs, rsum (iv.interval.map (·.2)) = 1) :
    rsum ((scaledEntries ivs props).map (·.2)) = rsum props := by
  unfold scaledEntries
  induction ivs generalizing props with
  | nil =>
    cases props with
    | nil => simp
    | cons _ _ => simp at hl
  | cons iv rest ih =>
    cases props with
    | nil => simp at hl
    | cons q qs =>
      simp only [List.zip_cons_cons, List.flatMap_cons, List.map_append, rsum_append, List.map_map,
        Function.comp_def, rsum_cons]
      rw [ih qs (by simpa using hl) (fun iv' hiv' => h1 iv' (by simp [hiv']))]
      have := h1 iv (by simp)
      rw [rsum_map_mul_right, this]; ring

end VK
