/-
  C12, last clause: expanding tied positions leaves every positional score unchanged.

  For every score vector `v` (first-place votes, Borda, any other), every ranking `r` whose tied
  groups list no candidate twice, and every candidate `c`: the points `c` gets from all linear orders
  consistent with `r`, added up, are (number of orders) × the points `r` itself gives `c` (the average
  of the positions its group spans). With the expansion's equal weights w / #orders this says the
  expanded ballots give `c` exactly what the original ballot gave.

  Proof: a swap of two members of one group permutes the orders of that group (`perms_map_swap_perm`),
  so all members of a group collect the same total; and within one order the members of the group
  collect exactly the slice of the vector the group spans.
-/
import VK.Lemmas.Fill
import VK.Model.Gen
import Mathlib.Tactic.Ring
import Mathlib.Tactic.FieldSimp

namespace VK
open Gen

/-- the slice of the vector spanned by `n` positions from `i` -/
def vslice (v : List Rat) (i n : Nat) : Rat := rsum ((v.drop i).take n)

/-- points of `c` under allocation from offset `i` (`ballotPoints` is the case `i = 0`) -/
def ptsFrom (v : List Rat) (i : Nat) (r : Ranking) (c : Cand) : Rat :=
  rsum (((positionAlloc v i r).filter (fun sa => sa.1.contains c)).map (·.2))

theorem ballotPoints_eq (v : List Rat) (r : Ranking) (c : Cand) : ballotPoints v r c = ptsFrom v 0 r c := rfl

theorem ptsFrom_nil (v : List Rat) (i : Nat) (c : Cand) : ptsFrom v i [] c = 0 := rfl

theorem ptsFrom_cons (v : List Rat) (i : Nat) (s : List Cand) (rest : Ranking) (c : Cand) :
    ptsFrom v i (s :: rest) c =
      (if s.contains c then vslice v i s.length / (s.length : Rat) else 0) + ptsFrom v (i + s.length) rest c := by
  unfold ptsFrom
  simp only [positionAlloc, List.filter_cons]
  by_cases h : s.contains c = true
  · have hm : c ∈ s := by simpa using h
    simp [hm, vslice]
  · have hm : c ∉ s := by simpa using h
    simp [hm]

theorem vslice_succ (v : List Rat) (i n : Nat) : vslice v i (n + 1) = vslice v i 1 + vslice v (i + 1) n := by
  unfold vslice
  have : ∀ l : List Rat, rsum (l.take (n + 1)) = rsum (l.take 1) + rsum ((l.drop 1).take n) := by
    intro l
    cases l with
    | nil => simp
    | cons x xs => simp
  rw [this, List.drop_drop]

theorem ptsFrom_sing_cons (v : List Rat) (i : Nat) (x : Cand) (o : List Cand) (c : Cand) :
    ptsFrom v i (singletons (x :: o)) c = (if x = c then vslice v i 1 else 0) + ptsFrom v (i + 1) (singletons o) c := by
  have : singletons (x :: o) = [x] :: singletons o := rfl
  rw [this, ptsFrom_cons]
  by_cases h : x = c
  · simp [h]
  · have : ([x].contains c) = false := by simp [Ne.symm h]
    simp only [this, Bool.false_eq_true, if_false, h, List.length_cons, List.length_nil]

theorem ptsFrom_sing_append (v : List Rat) (p t : List Cand) (c : Cand) : ∀ i,
    ptsFrom v i (singletons (p ++ t)) c = ptsFrom v i (singletons p) c + ptsFrom v (i + p.length) (singletons t) c := by
  induction p with
  | nil => intro i; simp [singletons, ptsFrom_nil]
  | cons x xs ih =>
    intro i
    rw [List.cons_append, ptsFrom_sing_cons, ptsFrom_sing_cons, ih (i + 1)]
    have : i + 1 + xs.length = i + (x :: xs).length := by simp; omega
    rw [this]; ring

theorem ptsFrom_sing_not_mem (v : List Rat) (o : List Cand) (c : Cand) (h : c ∉ o) : ∀ i,
    ptsFrom v i (singletons o) c = 0 := by
  induction o with
  | nil => intro i; rfl
  | cons x xs ih =>
    intro i
    have hx : x ≠ c := fun e => h (by simp [e])
    rw [ptsFrom_sing_cons, ih (fun hc => h (by simp [hc]))]
    simp [hx]

theorem ptsFrom_sing_map (v : List Rat) (f : Cand → Cand) (hf : Function.Injective f) (o : List Cand) (c : Cand) : ∀ i,
    ptsFrom v i (singletons (o.map f)) (f c) = ptsFrom v i (singletons o) c := by
  induction o with
  | nil => intro i; rfl
  | cons x xs ih =>
    intro i
    rw [List.map_cons, ptsFrom_sing_cons, ptsFrom_sing_cons, ih]
    by_cases h : x = c
    · simp [h]
    · have : f x ≠ f c := fun e => h (hf e)
      simp [h, this]

/-- within one order, the members collect exactly the slice the order spans -/
theorem sum_ptsFrom_self (v : List Rat) (o : List Cand) (hn : o.Nodup) : ∀ i,
    rsum (o.map (fun c => ptsFrom v i (singletons o) c)) = vslice v i o.length := by
  induction o with
  | nil => intro i; simp [vslice]
  | cons x xs ih =>
    intro i
    rw [List.nodup_cons] at hn
    simp only [List.map_cons, rsum_cons, List.length_cons]
    rw [ptsFrom_sing_cons, ptsFrom_sing_not_mem v xs x hn.1]
    have : xs.map (fun c => ptsFrom v i (singletons (x :: xs)) c) = xs.map (fun c => ptsFrom v (i + 1) (singletons xs) c) := by
      apply List.map_congr_left
      intro c hc
      have : x ≠ c := fun e => hn.1 (e ▸ hc)
      rw [ptsFrom_sing_cons]; simp [this]
    rw [this, ih hn.2, vslice_succ v i xs.length]
    simp [vslice]

theorem rsum_map_perm {α} (l₁ l₂ : List α) (f : α → Rat) (h : l₁.Perm l₂) : rsum (l₁.map f) = rsum (l₂.map f) := by
  rw [rsum_eq_sum, rsum_eq_sum]
  exact (h.map f).sum_eq

/-- **One tied group.** Over all orders of a duplicate-free group `s` placed at offset `i`, a member
collects `|s|!` times the average of the slice; a non-member nothing. -/
theorem group_points (v : List Rat) (i : Nat) (s : List Cand) (hs : s.Nodup) (c : Cand) :
    rsum ((perms s).map (fun p => ptsFrom v i (singletons p) c)) =
      if s.contains c then (fact s.length : Rat) * (vslice v i s.length / (s.length : Rat)) else 0 := by
  by_cases hc : c ∈ s
  · have hcont : s.contains c = true := by simpa using hc
    simp only [hcont, if_true]
    let T : Cand → Rat := fun a => rsum ((perms s).map (fun p => ptsFrom v i (singletons p) a))
    -- all members collect the same total
    have hsym : ∀ a ∈ s, T a = T c := by
      intro a ha
      by_cases hac : a = c
      · rw [hac]
      · have hperm := perms_map_swap_perm s a c hs ha hc
        have h1 : T a = rsum (((perms s).map (fun o => o.map (swapC a c))).map (fun p => ptsFrom v i (singletons p) a)) :=
          (rsum_map_perm _ _ _ hperm).symm
        rw [h1, List.map_map]
        apply congrArg
        apply List.map_congr_left
        intro p _
        simp only [Function.comp]
        have hsw : swapC a c c = a := by
          unfold swapC
          have : c ≠ a := Ne.symm hac
          simp [this]
        have := ptsFrom_sing_map v (swapC a c) (swapC_inj a c) p c i
        rw [hsw] at this
        exact this
    -- the members together collect the slice, in every order
    have htot : rsum (s.map T) = (fact s.length : Rat) * vslice v i s.length := by
      simp only [T]
      rw [rsum_comm]
      have : ∀ p ∈ perms s, rsum (s.map (fun a => ptsFrom v i (singletons p) a)) = vslice v i s.length := by
        intro p hp
        have hpp := (mem_perms_iff s p).1 hp
        rw [rsum_map_perm s p _ hpp.symm, sum_ptsFrom_self v p (hpp.nodup_iff.2 hs) i, hpp.length_eq]
      rw [List.map_congr_left this, rsum_const_mul, perms_length]
    have hall : rsum (s.map T) = (s.length : Rat) * T c := by
      rw [List.map_congr_left hsym, rsum_const_mul]
    have hlen : (s.length : Rat) ≠ 0 := by
      have : 0 < s.length := List.length_pos_of_mem hc
      exact_mod_cast (Nat.pos_iff_ne_zero.1 this)
    have : (s.length : Rat) * T c = (fact s.length : Rat) * vslice v i s.length := by rw [← hall, htot]
    show T c = _
    field_simp
    linarith
  · have hcont : s.contains c = false := by simpa using hc
    simp only [hcont, Bool.false_eq_true, if_false]
    have : ∀ p ∈ perms s, ptsFrom v i (singletons p) c = 0 := by
      intro p hp
      have hpp := (mem_perms_iff s p).1 hp
      exact ptsFrom_sing_not_mem v p c (fun h => hc (hpp.mem_iff.1 h)) i
    rw [List.map_congr_left this]
    simp [rsum_replicate]

/-- **Expansion keeps every positional score** (offset form). -/
theorem expand_points_from (v : List Rat) (r : Ranking) (hr : ∀ s ∈ r, s.Nodup) (c : Cand) : ∀ i,
    rsum ((linearise r).map (fun o => ptsFrom v i (singletons o) c)) =
      ((linearise r).length : Rat) * ptsFrom v i r c := by
  induction r with
  | nil => intro i; simp [linearise, singletons, ptsFrom_nil]
  | cons s rest ih =>
    intro i
    have hs := hr s (by simp)
    have ih' := ih (fun s' hs' => hr s' (by simp [hs']))
    have hlen : (linearise (s :: rest)).length = fact s.length * (linearise rest).length := by
      rw [C12_expand_count, C12_expand_count]
      unfold tieDivisor
      simp only [List.map_cons, List.foldl_cons, Nat.one_mul]
      have : ∀ (l : List Nat) (a : Nat), l.foldl (· * ·) a = a * l.foldl (· * ·) 1 := by
        intro l
        induction l with
        | nil => intro a; simp
        | cons x xs ihx => intro a; simp only [List.foldl_cons]; rw [ihx (a * x), ihx (1 * x)]; ring
      exact this _ _
    have hsplit : rsum ((linearise (s :: rest)).map (fun o => ptsFrom v i (singletons o) c)) =
        ((linearise rest).length : Rat) * rsum ((perms s).map (fun p => ptsFrom v i (singletons p) c)) +
        (fact s.length : Rat) * rsum ((linearise rest).map (fun t => ptsFrom v (i + s.length) (singletons t) c)) := by
      simp only [linearise]
      have hplen : ∀ p ∈ perms s, p.length = s.length := fun p hp => ((mem_perms_iff s p).1 hp).length_eq
      have key : ∀ (L : List (List Cand)), (∀ p ∈ L, p.length = s.length) →
          rsum ((L.flatMap (fun o => (linearise rest).map (o ++ ·))).map (fun o => ptsFrom v i (singletons o) c)) =
          ((linearise rest).length : Rat) * rsum (L.map (fun p => ptsFrom v i (singletons p) c)) +
          (L.length : Rat) * rsum ((linearise rest).map (fun t => ptsFrom v (i + s.length) (singletons t) c)) := by
        intro L hL
        induction L with
        | nil => simp
        | cons p ps ihL =>
          simp only [List.flatMap_cons, List.map_append, rsum_append, List.map_cons, rsum_cons, List.length_cons]
          rw [ihL (fun q hq => hL q (by simp [hq]))]
          have hp := hL p (by simp)
          have : ((linearise rest).map (p ++ ·)).map (fun o => ptsFrom v i (singletons o) c) =
              (linearise rest).map (fun t => ptsFrom v i (singletons p) c + ptsFrom v (i + s.length) (singletons t) c) := by
            rw [List.map_map]
            apply List.map_congr_left
            intro t _
            simp only [Function.comp]
            rw [ptsFrom_sing_append, hp]
          rw [this, rsum_map_add, rsum_const_mul]
          push_cast
          ring
      rw [key _ hplen, perms_length]
    rw [hsplit, group_points v i s hs c, ih' (i + s.length), ptsFrom_cons, hlen]
    push_cast
    by_cases hc : s.contains c = true
    · simp only [hc, if_true]; ring
    · simp only [hc, Bool.false_eq_true, if_false]; ring

/-- **Expanding ties leaves every positional score unchanged.** For any score vector (first-place
votes, Borda, …): the points candidate `c` receives from the expanded ballots, each weighted
`w / #orders`, equal the points the original ballot gives it. -/
theorem C12_expand_keeps_positional_scores (v : List Rat) (b : Ballot) (out : List Ballot)
    (hr : ∀ s ∈ b.ranking, s.Nodup) (h : expandTied b = .ok out) (c : Cand) :
    rsum (out.map (fun x => ballotPoints v x.ranking c * x.weight)) = ballotPoints v b.ranking c * b.weight := by
  unfold expandTied at h
  split at h; · cases h
  split at h
  · injection h with h; subst h; simp
  · injection h with h; subst h
    have hK : ((linearise b.ranking).length : Rat) ≠ 0 := by
      rw [C12_expand_count]
      have : 0 < tieDivisor b.ranking := by
        rw [← C12_expand_count]
        cases hl : linearise b.ranking with
        | nil =>
          have := C12_expand_count b.ranking
          rw [hl] at this
          have hpos : ∀ (l : List Nat) (acc : Nat), 0 < acc → (∀ x ∈ l, 0 < x) → 0 < l.foldl (· * ·) acc := by
            intro l
            induction l with
            | nil => intro acc h _; simpa
            | cons x xs ih => intro acc h hx; exact ih _ (Nat.mul_pos h (hx x (by simp))) (fun y hy => hx y (by simp [hy]))
          have hp : 0 < tieDivisor b.ranking := by
            unfold tieDivisor
            apply hpos _ 1 (by decide)
            intro x hx
            obtain ⟨s, _, rfl⟩ := List.mem_map.1 hx
            exact fact_pos _
          simp at this
          omega
        | cons _ _ => simp
      exact_mod_cast (Nat.pos_iff_ne_zero.1 this)
    simp only [List.map_map, Function.comp_def]
    have := expand_points_from v b.ranking hr c 0
    simp only [← ballotPoints_eq] at this
    have hsing : ∀ o : List Cand, o.map (fun c => [c]) = singletons o := fun _ => rfl
    simp only [hsing]
    rw [rsum_map_mul_right, this, C12_expand_count]
    rw [C12_expand_count] at hK
    field_simp

/-! ### pairwise comparisons -/

/-- what a ranking with ties says about "a over b" (both listed): earlier group wins, same group splits -/
def tiedShare : Ranking → Cand → Cand → Rat
  | [], _, _ => 0
  | s :: rest, a, b =>
    if s.contains a then (if s.contains b then 1 / 2 else 1)
    else if s.contains b then 0
    else tiedShare rest a b

theorem findIdx_append_mem (p t : List Cand) (c : Cand) (h : c ∈ p) :
    (p ++ t).findIdx (· = c) = p.findIdx (· = c) ∧ p.findIdx (· = c) < p.length := by
  have hlt : p.findIdx (· = c) < p.length := by rw [List.findIdx_lt_length]; exact ⟨c, h, by simp⟩
  refine ⟨?_, hlt⟩
  rw [List.findIdx_append]
  simp [hlt]

theorem findIdx_append_not_mem (p t : List Cand) (c : Cand) (h : c ∉ p) :
    (p ++ t).findIdx (· = c) = p.length + t.findIdx (· = c) := by
  have hlt : ¬ p.findIdx (· = c) < p.length := by rw [List.findIdx_lt_length]; simpa using h
  rw [List.findIdx_append]
  simp only [hlt, if_false]
  omega

/-- **Expansion keeps pairwise comparisons.** Over all linear orders consistent with `r`, the number
that put `a` before `b` is (number of orders) × 1, 1/2 or 0 according to whether `a`'s group comes
before, is, or comes after `b`'s group. -/
theorem expand_pairwise (r : Ranking) (hr : ∀ s ∈ r, s.Nodup) (a b : Cand) (hab : a ≠ b)
    (ha : a ∈ r.flatten) (hb : b ∈ r.flatten) :
    rsum ((linearise r).map (fun o => beforeIn o a b)) = ((linearise r).length : Rat) * tiedShare r a b := by
  induction r with
  | nil => simp at ha
  | cons s rest ih =>
    have hs := hr s (by simp)
    have hlen : (linearise (s :: rest)).length = fact s.length * (linearise rest).length := by
      simp only [linearise]
      have : ∀ (L : List (List Cand)),
          (L.flatMap (fun o => (linearise rest).map (o ++ ·))).length = L.length * (linearise rest).length := by
        intro L
        induction L with
        | nil => simp
        | cons o os iho => simp [iho]; ring
      rw [this, perms_length]
    -- the sum over the product enumeration, given the value of each term
    have key : ∀ (F : List Cand → List Cand → Rat), (∀ p ∈ perms s, ∀ t, beforeIn (p ++ t) a b = F p t) →
        rsum ((linearise (s :: rest)).map (fun o => beforeIn o a b)) =
        rsum ((perms s).map (fun p => rsum ((linearise rest).map (fun t => F p t)))) := by
      intro F hF
      simp only [linearise]
      have : ∀ (L : List (List Cand)), (∀ p ∈ L, p ∈ perms s) →
          rsum ((L.flatMap (fun o => (linearise rest).map (o ++ ·))).map (fun o => beforeIn o a b)) =
          rsum (L.map (fun p => rsum ((linearise rest).map (fun t => F p t)))) := by
        intro L hL
        induction L with
        | nil => simp
        | cons p ps ihL =>
          simp only [List.flatMap_cons, List.map_append, rsum_append, List.map_cons, rsum_cons]
          rw [ihL (fun q hq => hL q (by simp [hq])), List.map_map]
          congr 1
          apply congrArg
          apply List.map_congr_left
          intro t _
          exact hF p (hL p (by simp)) t
      exact this _ (fun _ h => h)
    unfold tiedShare
    by_cases has : a ∈ s
    · have hca : s.contains a = true := by simpa using has
      by_cases hbs : b ∈ s
      · have hcb : s.contains b = true := by simpa using hbs
        simp only [hca, hcb, if_true]
        rw [key (fun p _ => beforeIn p a b)]
        · simp only [rsum_const_mul]
          rw [rsum_map_mul_left]
          have := sum_before_half s a b hab hs has hbs
          rw [perms_length] at this
          rw [hlen]; push_cast
          have h2 : rsum ((perms s).map (fun p => beforeIn p a b)) = (fact s.length : Rat) / 2 := by linarith
          rw [h2]; ring
        · intro p hp t
          have hpp := (mem_perms_iff s p).1 hp
          unfold beforeIn
          rw [(findIdx_append_mem p t a (hpp.mem_iff.2 has)).1, (findIdx_append_mem p t b (hpp.mem_iff.2 hbs)).1]
      · have hcb : s.contains b = false := by simpa using hbs
        simp only [hca, hcb, if_true, Bool.false_eq_true, if_false]
        rw [key (fun _ _ => 1)]
        · simp only [rsum_const_mul]
          rw [perms_length, hlen]; push_cast; ring
        · intro p hp t
          have hpp := (mem_perms_iff s p).1 hp
          unfold beforeIn
          have h1 := findIdx_append_mem p t a (hpp.mem_iff.2 has)
          have h2 := findIdx_append_not_mem p t b (fun h => hbs (hpp.mem_iff.1 h))
          rw [h1.1, h2]
          have : List.findIdx (fun x => decide (x = a)) p < p.length + List.findIdx (fun x => decide (x = b)) t := by
            have := h1.2; omega
          simp [this]
    · have hca : s.contains a = false := by simpa using has
      by_cases hbs : b ∈ s
      · have hcb : s.contains b = true := by simpa using hbs
        simp only [hca, hcb, if_true, Bool.false_eq_true, if_false]
        rw [key (fun _ _ => 0)]
        · simp [rsum_replicate]
        · intro p hp t
          have hpp := (mem_perms_iff s p).1 hp
          unfold beforeIn
          have h1 := findIdx_append_mem p t b (hpp.mem_iff.2 hbs)
          have h2 := findIdx_append_not_mem p t a (fun h => has (hpp.mem_iff.1 h))
          rw [h1.1, h2]
          have : ¬ p.length + List.findIdx (fun x => decide (x = a)) t < List.findIdx (fun x => decide (x = b)) p := by
            have := h1.2; omega
          simp [this]
      · have hcb : s.contains b = false := by simpa using hbs
        simp only [hca, hcb, Bool.false_eq_true, if_false]
        have ha' : a ∈ rest.flatten := by
          simp only [List.flatten_cons, List.mem_append] at ha
          exact ha.resolve_left has
        have hb' : b ∈ rest.flatten := by
          simp only [List.flatten_cons, List.mem_append] at hb
          exact hb.resolve_left hbs
        have ih' := ih (fun s' hs' => hr s' (by simp [hs'])) ha' hb'
        rw [key (fun _ t => beforeIn t a b)]
        · simp only [rsum_const_mul]
          rw [ih', perms_length, hlen]; push_cast; ring
        · intro p hp t
          have hpp := (mem_perms_iff s p).1 hp
          unfold beforeIn
          rw [findIdx_append_not_mem p t a (fun h => has (hpp.mem_iff.1 h)),
            findIdx_append_not_mem p t b (fun h => hbs (hpp.mem_iff.1 h))]
          by_cases hlt : List.findIdx (fun x => decide (x = a)) t < List.findIdx (fun x => decide (x = b)) t
          · have : p.length + List.findIdx (fun x => decide (x = a)) t < p.length + List.findIdx (fun x => decide (x = b)) t := by omega
            simp [hlt, this]
          · have : ¬ p.length + List.findIdx (fun x => decide (x = a)) t < p.length + List.findIdx (fun x => decide (x = b)) t := by omega
            simp [hlt, this]

/-- **Expanding ties leaves pairwise totals unchanged**: the weight of the expanded ballots that rank
`a` before `b` is the original weight times 1, 1/2 or 0 (earlier group, same group, later group). -/
theorem C12_expand_keeps_pairwise (b : Ballot) (out : List Ballot) (hr : ∀ s ∈ b.ranking, s.Nodup)
    (hties : ¬ b.ranking.all (fun s => s.length = 1)) (h : expandTied b = .ok out) (x y : Cand) (hxy : x ≠ y)
    (hx : x ∈ b.ranking.flatten) (hy : y ∈ b.ranking.flatten) :
    rsum (out.map (fun o => beforeIn o.ranking.flatten x y * o.weight)) = tiedShare b.ranking x y * b.weight := by
  unfold expandTied at h
  split at h; · cases h
  · injection h with h; subst h
    simp only [List.map_map, Function.comp_def]
    have hfl : ∀ o : List Cand, (o.map (fun c => [c])).flatten = o := by
      intro o; induction o with
      | nil => rfl
      | cons c cs ih => simp [ih]
    simp only [hfl]
    rw [rsum_map_mul_right, expand_pairwise b.ranking hr x y hxy hx hy, C12_expand_count]
    have hK : ((tieDivisor b.ranking : Nat) : Rat) ≠ 0 := by
      have : 0 < tieDivisor b.ranking := by
        unfold tieDivisor
        have hpos : ∀ (l : List Nat) (acc : Nat), 0 < acc → (∀ x ∈ l, 0 < x) → 0 < l.foldl (· * ·) acc := by
          intro l
          induction l with
          | nil => intro acc h _; simpa
          | cons x xs ih => intro acc h hx; exact ih _ (Nat.mul_pos h (hx x (by simp))) (fun y hy => hx y (by simp [hy]))
        apply hpos _ 1 (by decide)
        intro x hx
        obtain ⟨s, _, rfl⟩ := List.mem_map.1 hx
        exact fact_pos _
      exact_mod_cast (Nat.pos_iff_ne_zero.1 this)
    field_simp

-- non-vacuity: {0,1} > 2 with vector (3,2,1): candidate 0 gets (3+2)/2 from the tied ballot and from its expansion
example : ballotPoints [3, 2, 1] [[0, 1], [2]] 0 = 5 / 2 := by decide +kernel
example : rsum ((linearise [[0, 1], [2]]).map (fun o => ballotPoints [3, 2, 1] (singletons o) 0)) = 5 := by decide +kernel

end VK
