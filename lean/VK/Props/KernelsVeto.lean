/-
  VK.Props.KernelsVeto — PluralityVeto's kernels regenerated from /repo's current source (the decrement, the
  strike test, the zero-tally test of round 1, the final-round test) are the ones the model (Model/Veto.lean) and
  the C01 theorems about it use.
-/
import VK.Model.Generated.Veto
import VK.Model.Veto
import VK.Props.C01Veto

namespace VK

/-- one veto takes exactly the source's decrement off the candidate's tally -/
theorem kernel_veto_decrement (c : Cand) (s : Rat) (rest : List (Cand × Rat)) :
    decScore c ((c, s) :: rest) = .ok ((c, Generated.vetoDecrement s) :: rest, Generated.vetoDecrement s) := by
  unfold decScore Generated.vetoDecrement
  simp

/-- the source's strike test is the model's `v ≤ 0` -/
theorem kernel_veto_struck (v : Rat) : Generated.vetoStruck v = decide (v ≤ 0) := by
  unfold Generated.vetoStruck
  first
    | rfl
    | simp

/-- round 1 drops exactly the candidates the source's zero-tally test selects -/
theorem kernel_veto_zero (prev : RoundState) (h0 : prev.round = 0) :
    zeroOf prev = (prev.scores.filter (fun cs => Generated.zeroTally cs.2)).map (·.1) := by
  unfold zeroOf Generated.zeroTally
  simp only [h0, if_true]

/-- the source's final-round test is the model's comparison of the standing candidates with the seats -/
theorem kernel_veto_final (standing m : Nat) : Generated.vetoFinal standing m = decide (standing = m) := by
  unfold Generated.vetoFinal
  rw [Bool.eq_iff_iff]
  simp only [decide_eq_true_eq]
  constructor
  · intro h; exact_mod_cast h
  · intro h; exact_mod_cast h

end VK
