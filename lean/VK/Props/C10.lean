/-
  Property C10 — randomness is used only to break genuine ties, and every tiebreak is recorded.
  In the model "random" = the oracle argument `pri`; a recorded tiebreak = `ElectResult.tiebreak`
  (copied into `RoundState.tiebreaks`).
-/
import VK.Model.STV
import VK.Lemmas.Elect

namespace VK

/-- **Every tiebreak resolution is a strict order of exactly the tied set.** -/
theorem C10_resolution_is_strict_order (pri s : List Cand) (prof : Option Profile) (tb : TB) (t : Ranking)
    (hs : s.Nodup) (hsub : ∀ p, prof = some p → p.cands.Nodup ∧ ∀ c ∈ s, c ∈ p.cands)
    (h : tiebreakSet pri s prof tb = .ok t) :
    t.flatten.Perm s ∧ ∀ x ∈ t, x.length = 1 :=
  tiebreakSet_spec pri s prof tb t hs hsub h

/-- **No recorded tiebreak ⇒ the oracle was not consulted**: the result is the same for every
other oracle value (all seeds). -/
theorem C10_no_tiebreak_no_randomness (pri pri' : List Cand) (ranking : Ranking) (m : Nat)
    (prof : Option Profile) (tb : Option TB) (r : ElectResult)
    (h : electFromRanking pri ranking m prof tb = .ok r) (hnone : r.tiebreak = none) :
    electFromRanking pri' ranking m prof tb = .ok r := by
  have key : ∀ (rest acc : Ranking) (k : Nat), electLoop pri prof tb k acc rest = .ok r →
      electLoop pri' prof tb k acc rest = .ok r := by
    intro rest
    induction rest with
    | nil => intro acc k h; simpa [electLoop] using h
    | cons g rest ih =>
      intro acc k h
      unfold electLoop at h ⊢
      split
      · rename_i hk; simpa [hk] using h
      · rename_i hk
        simp only [hk, if_false] at h
        split
        · rename_i hle; simp only [hle, if_true] at h; exact ih _ _ h
        · rename_i hgt
          simp only [hgt, if_false] at h
          cases tb with
          | none => cases h
          | some t =>
            simp only [] at h
            cases hb : tiebreakSet pri g prof t with
            | ok broken =>
              simp only [hb, bind, Outcome.bind, pure] at h
              injection h with h
              rw [← h] at hnone; cases hnone
            | raised e => simp [hb, bind, Outcome.bind] at h
            | oracleMismatch => simp [hb, bind, Outcome.bind] at h
            | outOfFuel => simp [hb, bind, Outcome.bind] at h
  unfold electFromRanking at h ⊢
  split; · simp_all
  split; · simp_all
  rename_i h1 h2
  simp only [h1, h2, if_false] at h
  exact key _ _ _ h

/-- **A recorded tiebreak is genuine and obeyed.** The tied set is one group of the ranking with
at least two members, it straddles the last seat, the resolution is a strict order of exactly
that set, the elected candidates are the whole groups before it plus the first part of the
resolution, and the remaining ones are the rest of the resolution followed by the later groups. -/
theorem C10_recorded_genuine (pri : List Cand) (ranking : Ranking) (m : Nat) (prof : Option Profile)
    (tb : Option TB) (r : ElectResult) (g : List Cand) (broken : Ranking)
    (hnd : ∀ g ∈ ranking, g.Nodup)
    (hsub : ∀ p, prof = some p → p.cands.Nodup ∧ ∀ g ∈ ranking, ∀ c ∈ g, c ∈ p.cands)
    (h : electFromRanking pri ranking m prof tb = .ok r) (ht : r.tiebreak = some (g, broken)) :
    ∃ pre post, ranking = pre ++ g :: post ∧ 2 ≤ g.length ∧ tb ≠ none ∧
      pre.flatten.length < m ∧ m < pre.flatten.length + g.length ∧
      broken.flatten.Perm g ∧ (∀ x ∈ broken, x.length = 1) ∧
      r.elected = pre ++ broken.take (m - pre.flatten.length) ∧
      r.remaining = broken.drop (m - pre.flatten.length) ++ post := by
  unfold electFromRanking at h
  split at h; · cases h
  split at h; · cases h
  obtain ⟨pre, post, hrest, hcase⟩ := electLoop_spec pri prof tb m [] ranking r hnd hsub h
  rcases hcase with ⟨h1, _⟩ | ⟨g', post', broken', t, h1, h2, h3, h4, h5, _, h7, h8, h9, h10⟩
  · rw [h1] at ht; cases ht
  · rw [h2] at ht
    injection ht with ht
    injection ht with hg hb
    subst hg; subst hb
    refine ⟨pre, post', by rw [hrest, h1], by omega, by simp [h3], h4, by omega, h7, h8, ?_, h10⟩
    simpa using h9

theorem lookupScore_of_mem (sc : List (Cand × Rat)) (hk : (sc.map (·.1)).Nodup) (c : Cand) (v : Rat)
    (h : (c, v) ∈ sc) : lookupScore sc c = v := by
  induction sc with
  | nil => cases h
  | cons x xs ih =>
    rw [List.map_cons, List.nodup_cons] at hk
    unfold lookupScore
    rcases List.mem_cons.1 h with rfl | h
    · simp
    · have hne : x.1 ≠ c := by
        intro e
        apply hk.1
        rw [e]
        exact List.mem_map.2 ⟨(c, v), h, rfl⟩
      simp only [List.find?_cons, hne, decide_false]
      exact ih hk.2 h

/-- members of one group of the score ranking are **genuinely tied**: they have the same score -/
theorem C10_group_members_tied (sc : List (Cand × Rat)) (hk : (sc.map (·.1)).Nodup)
    (g : List Cand) (hg : g ∈ scoreToRanking sc true) :
    ∃ v, ∀ c ∈ g, lookupScore sc c = v := by
  rw [scoreToRanking_eq] at hg
  obtain ⟨v, _, rfl⟩ := List.mem_map.1 hg
  refine ⟨v, ?_⟩
  intro c hc
  unfold groupOf at hc
  obtain ⟨cs, hcs, rfl⟩ := List.mem_map.1 hc
  have := List.mem_filter.1 hcs
  have hv : cs.2 = v := by simpa using this.2
  exact lookupScore_of_mem sc hk cs.1 v (by rw [← hv]; exact this.1)

theorem breakGroups_sorted (pri : List Cand) (sc : List (Cand × Rat)) (hk : (sc.map (·.1)).Nodup)
    (vals : List Rat) (hv : vals.Pairwise (· > ·)) (t : Ranking)
    (h : breakGroups pri (vals.map (groupOf sc)) = .ok t) :
    t.flatten.Pairwise (fun a b => lookupScore sc b ≤ lookupScore sc a) ∧
    ∀ c ∈ t.flatten, ∃ v ∈ vals, lookupScore sc c = v := by
  have hgn : ∀ v, (groupOf sc v).Nodup := by
    intro v
    unfold groupOf
    exact (List.Nodup.sublist ((List.filter_sublist).map _) hk)
  have hscore : ∀ v, ∀ c ∈ groupOf sc v, lookupScore sc c = v := by
    intro v c hc
    unfold groupOf at hc
    obtain ⟨cs, hcs, rfl⟩ := List.mem_map.1 hc
    have := List.mem_filter.1 hcs
    have hv : cs.2 = v := by simpa using this.2
    exact lookupScore_of_mem sc hk cs.1 v (by rw [← hv]; exact this.1)
  induction vals generalizing t with
  | nil => simp [breakGroups] at h; subst h; simp
  | cons v vs ih =>
    rw [List.pairwise_cons] at hv
    simp only [List.map_cons, breakGroups] at h
    cases h1 : breakGroup pri (groupOf sc v) with
    | ok a =>
      cases h2 : breakGroups pri (vs.map (groupOf sc)) with
      | ok b =>
        simp only [h1, h2, bind, Outcome.bind, pure] at h
        injection h with h; subst h
        have sa := breakGroup_spec pri _ a (hgn v) h1
        obtain ⟨ihs, ihm⟩ := ih hv.2 b h2
        have ha : ∀ c ∈ a.flatten, lookupScore sc c = v := fun c hc => hscore v c (sa.1.subset hc)
        constructor
        · rw [List.flatten_append, List.pairwise_append]
          refine ⟨?_, ihs, ?_⟩
          · exact List.pairwise_of_forall_mem_list (fun x hx y hy => by rw [ha x hx, ha y hy])
          · intro x hx y hy
            obtain ⟨u, hu, hyu⟩ := ihm y hy
            rw [ha x hx, hyu]
            exact le_of_lt (hv.1 u hu)
        · intro c hc
          rw [List.flatten_append] at hc
          rcases List.mem_append.1 hc with hc | hc
          · exact ⟨v, by simp, ha c hc⟩
          · obtain ⟨u, hu, hcu⟩ := ihm c hc
            exact ⟨u, by simp [hu], hcu⟩
      | raised e => simp [h1, h2, bind, Outcome.bind] at h
      | oracleMismatch => simp [h1, h2, bind, Outcome.bind] at h
      | outOfFuel => simp [h1, h2, bind, Outcome.bind] at h
    | raised e => simp [h1, bind, Outcome.bind] at h
    | oracleMismatch => simp [h1, bind, Outcome.bind] at h
    | outOfFuel => simp [h1, bind, Outcome.bind] at h

theorem scored_core (pri s : List Cand) (p : Profile) (sc : List (Cand × Rat)) (t : Ranking)
    (hc : p.cands.Nodup) (hkeys : sc.map (·.1) = p.cands)
    (h : breakGroups pri (scoreToRanking (sc.filter (fun cs => s.contains cs.1))) = .ok t) :
    t.flatten.Pairwise (fun a b => lookupScore sc b ≤ lookupScore sc a) := by
  set sc' := sc.filter (fun cs => s.contains cs.1) with hsc'
  have hk' : (sc'.map (·.1)).Nodup := by
    have : (sc'.map (·.1)).Sublist (sc.map (·.1)) := (List.filter_sublist).map _
    exact List.Nodup.sublist this (hkeys ▸ hc)
  rw [scoreToRanking_eq] at h
  have hsorted := (breakGroups_sorted pri sc' hk' _ (distinctDesc_sorted _) t h)
  have hagree : ∀ c ∈ t.flatten, lookupScore sc' c = lookupScore sc c := by
    intro c hcm
    have hspec := breakGroups_spec pri _ t (by
      intro g hg; obtain ⟨u, _, rfl⟩ := List.mem_map.1 hg
      unfold groupOf
      exact List.Nodup.sublist ((List.filter_sublist).map _) hk') h
    have hcin : c ∈ ((distinctDesc (sc'.map (·.2))).map (groupOf sc')).flatten := hspec.1.subset hcm
    obtain ⟨g, hg, hcg⟩ := List.mem_flatten.1 hcin
    obtain ⟨u, _, rfl⟩ := List.mem_map.1 hg
    unfold groupOf at hcg
    obtain ⟨cs, hcs, rfl⟩ := List.mem_map.1 hcg
    have hmem' : cs ∈ sc' := (List.mem_filter.1 hcs).1
    have hmem : cs ∈ sc := (List.mem_filter.1 hmem').1
    rw [lookupScore_of_mem sc' hk' cs.1 cs.2 hmem',
        lookupScore_of_mem sc (hkeys ▸ hc) cs.1 cs.2 hmem]
  refine hsorted.1.imp_of_mem ?_
  intro a b ha hb hab
  rw [← hagree a ha, ← hagree b hb]; exact hab

/-- **A 'borda' or 'first_place' tiebreak orders the tied candidates by that score of the profile**;
the oracle decides only among candidates still tied on it. -/
theorem C10_scored_tiebreak (pri s : List Cand) (p : Profile) (t : Ranking) (hc : p.cands.Nodup) :
    (tiebreakSet pri s (some p) .borda = .ok t →
      ∃ sc, bordaScores p = .ok sc ∧
        t.flatten.Pairwise (fun a b => lookupScore sc b ≤ lookupScore sc a)) ∧
    (tiebreakSet pri s (some p) .firstPlace = .ok t →
      ∃ sc, firstPlaceVotes p = .ok sc ∧
        t.flatten.Pairwise (fun a b => lookupScore sc b ≤ lookupScore sc a)) := by
  constructor
  · intro h
    simp only [tiebreakSet, if_true] at h
    cases hs : bordaScores p with
    | ok sc =>
      simp only [hs, bind, Outcome.bind] at h
      exact ⟨sc, rfl, scored_core pri s p sc t hc (scoreFromRankings_keys p _ sc hs) h⟩
    | raised e => simp [hs, bind, Outcome.bind] at h
    | oracleMismatch => simp [hs, bind, Outcome.bind] at h
    | outOfFuel => simp [hs, bind, Outcome.bind] at h
  · intro h
    simp only [tiebreakSet] at h
    cases hs : firstPlaceVotes p with
    | ok sc =>
      simp only [hs, bind, Outcome.bind] at h
      exact ⟨sc, rfl, scored_core pri s p sc t hc (scoreFromRankings_keys p _ sc hs) h⟩
    | raised e => simp [hs, bind, Outcome.bind] at h
    | oracleMismatch => simp [hs, bind, Outcome.bind] at h
    | outOfFuel => simp [hs, bind, Outcome.bind] at h

/-! ### whole STV counts: no recorded tiebreak, no dependence on the random source -/

/-- the fractional and full-weight transfers never look at the sample oracle -/
theorem applyTransfers_sample_irrelevant (cfg : STVCfg) (hop : List Cand) (q : Int)
    (s s' : Cand → List (List Cand × Nat)) (hnr : cfg.transfer ≠ .random) (ws : List Cand) (bs : List PBallot) :
    applyTransfers cfg hop q s ws bs = applyTransfers cfg hop q s' ws bs := by
  induction ws generalizing bs with
  | nil => rfl
  | cons w rest ih =>
    simp only [applyTransfers]
    have h1 : applyTransfer cfg hop q (s w) bs w = applyTransfer cfg hop q (s' w) bs w := by
      unfold applyTransfer
      cases ht : cfg.transfer with
      | full => rfl
      | fractional => rfl
      | random => exact absurd ht hnr
    rw [h1]
    cases applyTransfer cfg hop q (s' w) bs w with
    | ok bs1 => simp only [bind, Outcome.bind]; exact ih bs1
    | raised e => rfl
    | oracleMismatch => rfl
    | outOfFuel => rfl

theorem electChoice_no_tiebreak (cfg : STVCfg) (q : Int) (ω ω' : STVOracle) (rnd : Nat) (S : CState) (prev : RoundState)
    (g : Ranking) (h : electChoice cfg q ω rnd S prev = .ok (g, [])) :
    electChoice cfg q ω' rnd S prev = .ok (g, []) := by
  unfold electChoice at h ⊢
  by_cases hsim : cfg.simultaneous = true
  · simp only [hsim, if_true] at h ⊢; exact h
  · have hsim' : cfg.simultaneous = false := by simpa using hsim
    simp only [hsim', Bool.false_eq_true, if_false] at h ⊢
    cases he : electFromRanking (ω.pri rnd) prev.remaining 1 (some (currentProfile S)) cfg.tiebreak with
    | ok er =>
      simp only [he, bind, Outcome.bind, pure, Outcome.ok.injEq, Prod.mk.injEq] at h
      have hern : er.tiebreak = none := by
        cases ht : er.tiebreak with
        | none => rfl
        | some t => rw [ht] at h; simp at h
      rw [C10_no_tiebreak_no_randomness _ (ω'.pri rnd) _ _ _ _ er he hern]
      simp only [bind, Outcome.bind, pure, Outcome.ok.injEq, Prod.mk.injEq]
      exact h
    | raised e => simp [he, bind, Outcome.bind] at h
    | oracleMismatch => simp [he, bind, Outcome.bind] at h
    | outOfFuel => simp [he, bind, Outcome.bind] at h

theorem loserChoice_no_tiebreak (init : Profile) (ω ω' : STVOracle) (rnd : Nat) (lowest : List Cand) (c : Cand)
    (h : loserChoice init ω rnd lowest = .ok (c, [])) : loserChoice init ω' rnd lowest = .ok (c, []) := by
  unfold loserChoice at h ⊢
  by_cases hlen : lowest.length > 1
  · simp only [hlen, if_true] at h
    cases ht : tiebreakSet (ω.pri rnd) lowest (some init) .firstPlace with
    | ok t =>
      simp only [ht, bind, Outcome.bind] at h
      split at h
      · simp only [pure, Outcome.ok.injEq, Prod.mk.injEq] at h
        exact absurd h.2 (by simp)
      · cases h
    | raised e => simp [ht, bind, Outcome.bind] at h
    | oracleMismatch => simp [ht, bind, Outcome.bind] at h
    | outOfFuel => simp [ht, bind, Outcome.bind] at h
  · simp only [hlen, if_false] at h ⊢; exact h

/-- a step that records no tiebreak gives the same result under every oracle -/
theorem stvStep_no_tiebreak (cfg : STVCfg) (init : Profile) (q : Int) (ω ω' : STVOracle) (rnd : Nat)
    (S S' : CState) (prev r : RoundState) (hnr : cfg.transfer ≠ .random)
    (h : stvStep cfg init q ω rnd S prev = .ok (S', r)) (hnone : r.tiebreaks = []) :
    stvStep cfg init q ω' rnd S prev = .ok (S', r) := by
  unfold stvStep at h ⊢
  simp only at h ⊢
  by_cases habove : (!(prev.scores.filter (fun cs => decide ((q : Rat) ≤ cs.2))).isEmpty) = true
  · simp only [habove, if_true] at h ⊢
    cases he : electChoice cfg q ω rnd S prev with
    | ok gt =>
      obtain ⟨g, tbs⟩ := gt
      simp only [he, bind, Outcome.bind] at h
      cases ha : applyTransfers cfg S.hopeful q (ω.sample rnd) g.flatten S.bs with
      | ok bs' =>
        simp only [ha, pure, Outcome.ok.injEq, Prod.mk.injEq] at h
        have htbs : tbs = [] := by rw [← h.2] at hnone; exact hnone
        subst htbs
        rw [electChoice_no_tiebreak cfg q ω ω' rnd S prev g he]
        simp only [bind, Outcome.bind]
        rw [← applyTransfers_sample_irrelevant cfg S.hopeful q (ω.sample rnd) (ω'.sample rnd) hnr, ha]
        simp only [pure, Outcome.ok.injEq, Prod.mk.injEq]
        exact h
      | raised e => simp [ha] at h
      | oracleMismatch => simp [ha] at h
      | outOfFuel => simp [ha] at h
    | raised e => simp [he, bind, Outcome.bind] at h
    | oracleMismatch => simp [he, bind, Outcome.bind] at h
    | outOfFuel => simp [he, bind, Outcome.bind] at h
  · simp only [habove, Bool.false_eq_true, if_false] at h ⊢
    by_cases hc : (decide (S.nElected ≤ cfg.m) && decide (S.hopeful.length = cfg.m - S.nElected)) = true
    · simp only [hc, if_true] at h ⊢; exact h
    · simp only [hc, Bool.false_eq_true, if_false] at h ⊢
      cases hl : prev.remaining.getLast? with
      | none => simp [hl] at h
      | some lowest =>
        simp only [hl] at h ⊢
        cases hlc : loserChoice init ω rnd lowest with
        | ok ct =>
          obtain ⟨c, tbs⟩ := ct
          simp only [hlc, bind, Outcome.bind, pure, Outcome.ok.injEq, Prod.mk.injEq] at h
          have htbs : tbs = [] := by rw [← h.2] at hnone; exact hnone
          subst htbs
          rw [loserChoice_no_tiebreak init ω ω' rnd lowest c hlc]
          simp only [bind, Outcome.bind, pure, Outcome.ok.injEq, Prod.mk.injEq]
          exact h
        | raised e => simp [hlc, bind, Outcome.bind] at h
        | oracleMismatch => simp [hlc, bind, Outcome.bind] at h
        | outOfFuel => simp [hlc, bind, Outcome.bind] at h

theorem stvLoop_no_tiebreak (cfg : STVCfg) (init : Profile) (q : Int) (ω ω' : STVOracle) (hnr : cfg.transfer ≠ .random)
    (fuel : Nat) (S : CState) (prev : RoundState) (acc tr : List (RoundState × CState))
    (h : stvLoop cfg init q ω fuel S prev acc = .ok tr) (hnone : ∀ x ∈ tr, x.1.tiebreaks = []) :
    stvLoop cfg init q ω' fuel S prev acc = .ok tr := by
  -- every round recorded from here on ends up in the result
  have hsub : ∀ (fuel : Nat) (S : CState) (prev : RoundState) (acc tr : List (RoundState × CState)),
      stvLoop cfg init q ω fuel S prev acc = .ok tr → ∀ x ∈ acc, x ∈ tr := by
    intro fuel
    induction fuel with
    | zero =>
      intro S prev acc tr h x hx
      unfold stvLoop at h
      split at h
      · injection h with h; subst h; exact List.mem_reverse.2 hx
      · cases h
    | succ fuel ih =>
      intro S prev acc tr h x hx
      unfold stvLoop at h
      split at h
      · injection h with h; subst h; exact List.mem_reverse.2 hx
      · cases hs : stvStep cfg init q ω (prev.round + 1) S prev with
        | ok Sr =>
          simp only [hs, bind, Outcome.bind] at h
          exact ih _ _ _ _ h x (List.mem_cons_of_mem _ hx)
        | raised e => simp [hs, bind, Outcome.bind] at h
        | oracleMismatch => simp [hs, bind, Outcome.bind] at h
        | outOfFuel => simp [hs, bind, Outcome.bind] at h
  induction fuel generalizing S prev acc with
  | zero => simpa [stvLoop] using h
  | succ fuel ih =>
    unfold stvLoop at h ⊢
    split
    · rename_i hm; simpa [hm] using h
    · rename_i hm
      simp only [hm, if_false] at h
      cases hs : stvStep cfg init q ω (prev.round + 1) S prev with
      | ok Sr =>
        obtain ⟨S', r⟩ := Sr
        simp only [hs, bind, Outcome.bind] at h
        have hr : r.tiebreaks = [] := hnone (r, S') (hsub _ _ _ _ _ h (r, S') (by simp))
        rw [stvStep_no_tiebreak cfg init q ω ω' _ S S' prev r hnr hs hr]
        simp only [bind, Outcome.bind]
        exact ih S' r _ h
      | raised e => simp [hs, bind, Outcome.bind] at h
      | oracleMismatch => simp [hs, bind, Outcome.bind] at h
      | outOfFuel => simp [hs, bind, Outcome.bind] at h

/-- **C10 for whole STV / IRV / SequentialRCV counts.** If a finished count (fractional or
full-weight transfer) records no tiebreak in any round, the complete result — every round — is the
same under every value of the random source. -/
theorem C10_stv_no_tiebreak_deterministic (cfg : STVCfg) (p : Profile) (ω ω' : STVOracle) (res : STVResult)
    (hnr : cfg.transfer ≠ .random) (h : stvRun cfg p ω = .ok res)
    (hnone : ∀ s ∈ res.states, s.tiebreaks = []) : stvRun cfg p ω' = .ok res := by
  unfold stvRun at h ⊢
  by_cases h1 : (!stvValidProfile p) = true
  · simp [h1] at h
  by_cases h2 : (decide (cfg.m = 0) || decide (cfg.m > p.cands.length)) = true
  · simp [h1, h2] at h
  simp only [h1, h2, Bool.false_eq_true, Bool.not_true, if_false] at h ⊢
  cases h0 : firstPlaceVotes p with
  | ok sc0 =>
    simp only [h0, bind, Outcome.bind] at h ⊢
    cases hl : stvLoop cfg p (threshold cfg.quota cfg.m p.total) ω (p.cands.length + 2) (stvInitState p)
        (initialState p.cands (some sc0)) [(initialState p.cands (some sc0), stvInitState p)] with
    | ok tr =>
      simp only [hl, pure, Outcome.ok.injEq] at h
      subst h
      rw [stvLoop_no_tiebreak cfg p _ ω ω' hnr _ _ _ _ tr hl (by
        intro x hx
        exact hnone x.1 (List.mem_map.2 ⟨x, hx, rfl⟩))]
      rfl
    | raised e => simp [hl] at h
    | oracleMismatch => simp [hl] at h
    | outOfFuel => simp [hl] at h
  | raised e => simp [h0, bind, Outcome.bind] at h
  | oracleMismatch => simp [h0, bind, Outcome.bind] at h
  | outOfFuel => simp [h0, bind, Outcome.bind] at h


end VK
