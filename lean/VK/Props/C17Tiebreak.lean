/-
  Property C17 — "a random tiebreak orders the tied candidates uniformly, so each tied candidate is equally likely to
  take the contested seat or be the one eliminated": under the uniform law of `random.sample` over the whole tied
  set (`shuffleDist`), every member of a tied set of k is first with probability 1/k and last with probability 1/k.
-/
import VK.Props.C17
import VK.Props.C16Restrict
namespace VK
open Dist

theorem mem_bind_supp {α β} (d : Dist α) (f : α → Dist β) (e : β × Rat) :
    e ∈ (Dist.bind d f).supp ↔ ∃ ap ∈ d.supp, ∃ bq ∈ (f ap.1).supp, e = (bq.1, ap.2 * bq.2) := by
  simp only [Dist.bind, List.mem_flatMap, List.mem_map]
  constructor
  · rintro ⟨ap, hap, bq, hbq, rfl⟩; exact ⟨ap, hap, bq, hbq, rfl⟩
  · rintro ⟨ap, hap, bq, hbq, rfl⟩; exact ⟨ap, hap, bq, hbq, rfl⟩

theorem evProb_congr_supp {α} (d : Dist α) (E F : α → Bool) (h : ∀ e ∈ d.supp, E e.1 = F e.1) :
    evProb d E = evProb d F := by
  unfold evProb
  congr 2
  apply List.filter_congr
  intro e he; exact h e he

theorem evProb_uniform_bind {α β} (xs : List α) (f : α → Dist β) (E : β → Bool) :
    evProb (Dist.bind (Dist.uniform xs) f) E = rsum (xs.map (fun a => (1 / (xs.length : Rat)) * evProb (f a) E)) := by
  rw [evProb_bind]
  simp only [Dist.uniform, List.map_map, Function.comp_def]

theorem evProb_true_mass {α} (d : Dist α) (E : α → Bool) (h : ∀ a, E a = true) : evProb d E = d.mass := by
  unfold evProb Dist.mass
  have : d.supp.filter (fun e => E e.1) = d.supp := by
    rw [List.filter_eq_self]; intro a _; exact h a.1
  rw [this]

/-- one step of the shuffle, spelled out for a list with `n + 1` entries -/
theorem shuffle_step (n : Nat) (xs : List Cand) (hlen : xs.length = n + 1) (E : List Cand → Bool) :
    evProb (shuffleDist (n + 1) xs) E =
      rsum ((List.range (n + 1)).map (fun i => (1 / ((n + 1 : Nat) : Rat)) *
        evProb (shuffleDist n (dropIdx xs i)) (fun rest => E (xs.getD i 0 :: rest)))) := by
  have hne : xs.isEmpty = false := by
    cases xs with
    | nil => simp at hlen
    | cons _ _ => rfl
  simp only [shuffleDist, hne, Bool.false_eq_true, if_false]
  rw [evProb_uniform_bind, List.length_range, hlen]
  congr 1
  apply List.map_congr_left
  intro i hi
  have hil : i < xs.length := by rw [hlen]; exact List.mem_range.mp hi
  have hi? : xs[i]? = some xs[i] := List.getElem?_eq_getElem hil
  have hgd : xs.getD i 0 = xs[i] := by simp [List.getD, hi?]
  rw [hi?, hgd]
  simp only []
  rw [evProb_bind_pure]

theorem shuffle_supp_perm (n : Nat) (xs : List Cand) (hlen : xs.length = n) :
    ∀ e ∈ (shuffleDist n xs).supp, e.1.Perm xs := by
  induction n generalizing xs with
  | zero =>
    intro e he
    have hx : xs = [] := List.length_eq_zero_iff.1 hlen
    subst hx
    simp [shuffleDist, Dist.pure] at he
    rw [he]
  | succ n ih =>
    intro e he
    have hne : xs.isEmpty = false := by
      cases xs with
      | nil => simp at hlen
      | cons _ _ => rfl
    simp only [shuffleDist, hne, Bool.false_eq_true, if_false] at he
    rw [mem_bind_supp] at he
    obtain ⟨ap, hap, bq, hbq, rfl⟩ := he
    simp only [Dist.uniform, List.mem_map, List.mem_range] at hap
    obtain ⟨i, hi, rfl⟩ := hap
    have hi? : xs[i]? = some xs[i] := List.getElem?_eq_getElem hi
    simp only [hi?] at hbq
    rw [mem_bind_supp] at hbq
    obtain ⟨rq, hrq, cq, hcq, rfl⟩ := hbq
    simp only [Dist.pure, List.mem_singleton] at hcq
    subst hcq
    have hl' : (dropIdx xs i).length = n := by have := dropIdx_length xs i hi; omega
    have hp := ih (dropIdx xs i) hl' rq hrq
    exact (hp.cons _).trans (dropIdx_perm xs i xs[i] hi?)

theorem shuffle_mass (n : Nat) (xs : List Cand) (hlen : xs.length = n) : (shuffleDist n xs).mass = 1 := by
  have := evProb_true_mass (shuffleDist n xs) (fun _ => true) (fun _ => rfl)
  rw [← this]
  induction n generalizing xs with
  | zero => simp [shuffleDist, Dist.pure, evProb]
  | succ n ih =>
    rw [shuffle_step n xs hlen]
    have : ∀ i ∈ List.range (n + 1), (1 / ((n + 1 : Nat) : Rat)) *
        evProb (shuffleDist n (dropIdx xs i)) (fun _ => true) = 1 / ((n + 1 : Nat) : Rat) := by
      intro i hi
      have hil : i < xs.length := by rw [hlen]; exact List.mem_range.mp hi
      have hl' : (dropIdx xs i).length = n := by have := dropIdx_length xs i hil; omega
      rw [ih (dropIdx xs i) hl' (evProb_true_mass _ _ (fun _ => rfl))]; ring
    rw [List.map_congr_left this, List.map_const', rsum_replicate, List.length_range]
    have h1 : ((n + 1 : Nat) : Rat) ≠ 0 := by positivity
    field_simp

theorem index_of_mem (xs : List Cand) (a : Cand) (ha : a ∈ xs) : ∃ j, ∃ h : j < xs.length, xs[j] = a := by
  obtain ⟨j, hj, e⟩ := List.getElem_of_mem ha
  exact ⟨j, hj, e⟩

/-- **C17 (the contested seat).** Every member of a tied set of `k = n + 1` candidates heads the random order with
probability `1/k`. -/
theorem C17_tiebreak_first (n : Nat) (xs : List Cand) (a : Cand) (hnd : xs.Nodup) (hlen : xs.length = n + 1)
    (ha : a ∈ xs) :
    evProb (shuffleDist (n + 1) xs) (fun σ => decide (σ.head? = some a)) = 1 / ((n + 1 : Nat) : Rat) := by
  obtain ⟨j, hj, hja⟩ := index_of_mem xs a ha
  rw [shuffle_step n xs hlen]
  have key : ∀ i ∈ List.range (n + 1), (1 / ((n + 1 : Nat) : Rat)) *
      evProb (shuffleDist n (dropIdx xs i)) (fun rest => decide ((xs.getD i 0 :: rest).head? = some a)) =
      if i = j then 1 / ((n + 1 : Nat) : Rat) else 0 := by
    intro i hi
    have hil : i < xs.length := by rw [hlen]; exact List.mem_range.mp hi
    have hgd : xs.getD i 0 = xs[i] := by simp [List.getD, List.getElem?_eq_getElem hil]
    have hl' : (dropIdx xs i).length = n := by have := dropIdx_length xs i hil; omega
    rw [hgd]
    by_cases hij : i = j
    · subst hij
      simp only [List.head?_cons, hja, decide_true, if_true]
      rw [evProb_true_mass _ _ (fun _ => rfl), shuffle_mass n _ hl']; ring
    · have hne : xs[i] ≠ a := by
        intro e; exact hij ((List.Nodup.getElem_inj_iff hnd).1 (e.trans hja.symm))
      simp only [List.head?_cons, Option.some.injEq, hne, decide_false, hij, if_false]
      rw [evProb_false _ _ (fun _ => rfl)]; ring
  rw [List.map_congr_left key]
  exact rsum_indicator (n + 1) j (by rw [← hlen]; exact hj) _

theorem rsum_indicator_compl (m j : Nat) (hj : j < m) (c : Rat) :
    rsum ((List.range m).map (fun i => if i = j then 0 else c)) = ((m : Rat) - 1) * c := by
  have h1 : rsum ((List.range m).map (fun i => (if i = j then 0 else c) + (if i = j then c else 0))) =
      rsum ((List.range m).map (fun _ => c)) := by
    congr 1; apply List.map_congr_left; intro i _; by_cases h : i = j <;> simp [h]
  rw [rsum_map_add, rsum_indicator m j hj, List.map_const', rsum_replicate, List.length_range] at h1
  linarith

/-- **C17 (the one eliminated).** Every member of a tied set of `k = n + 1` candidates closes the random order
with probability `1/k`. -/
theorem C17_tiebreak_last (n : Nat) (xs : List Cand) (a : Cand) (hnd : xs.Nodup) (hlen : xs.length = n + 1)
    (ha : a ∈ xs) :
    evProb (shuffleDist (n + 1) xs) (fun σ => decide (σ.getLast? = some a)) = 1 / ((n + 1 : Nat) : Rat) := by
  induction n generalizing xs with
  | zero =>
    -- one candidate: it is last
    match xs, hlen, ha with
    | [x], _, ha =>
      have hx : x = a := (List.mem_singleton.mp ha).symm
      subst hx
      simp [shuffleDist, Dist.bind, Dist.uniform, Dist.pure, evProb]
  | succ k ih =>
    obtain ⟨j, hj, hja⟩ := index_of_mem xs a ha
    rw [shuffle_step (k + 1) xs hlen]
    have key : ∀ i ∈ List.range (k + 1 + 1), (1 / ((k + 1 + 1 : Nat) : Rat)) *
        evProb (shuffleDist (k + 1) (dropIdx xs i)) (fun rest => decide ((xs.getD i 0 :: rest).getLast? = some a)) =
        if i = j then 0 else (1 / ((k + 1 + 1 : Nat) : Rat)) * (1 / ((k + 1 : Nat) : Rat)) := by
      intro i hi
      have hil : i < xs.length := by rw [hlen]; exact List.mem_range.mp hi
      have hi? : xs[i]? = some xs[i] := List.getElem?_eq_getElem hil
      have hl' : (dropIdx xs i).length = k + 1 := by have := dropIdx_length xs i hil; omega
      have hperm := dropIdx_perm xs i xs[i] hi?
      have hnd' : (dropIdx xs i).Nodup := (List.nodup_cons.1 (hperm.nodup_iff.2 hnd)).2
      have hnotin : xs[i] ∉ dropIdx xs i := (List.nodup_cons.1 (hperm.nodup_iff.2 hnd)).1
      -- on the support the rest is a non-empty order of the others: its last entry decides
      have hev : evProb (shuffleDist (k + 1) (dropIdx xs i))
            (fun rest => decide ((xs.getD i 0 :: rest).getLast? = some a)) =
          evProb (shuffleDist (k + 1) (dropIdx xs i)) (fun rest => decide (rest.getLast? = some a)) := by
        apply evProb_congr_supp
        intro e he
        have hp := shuffle_supp_perm (k + 1) _ hl' e he
        have hne : e.1 ≠ [] := by
          intro e0; rw [e0] at hp; have := hp.length_eq; simp [hl'] at this
        cases hr : e.1 with
        | nil => exact absurd hr hne
        | cons y ys => simp [List.getLast?_cons_cons]
      rw [hev]
      by_cases hij : i = j
      · subst hij
        simp only [if_true]
        have hzero : evProb (shuffleDist (k + 1) (dropIdx xs i)) (fun rest => decide (rest.getLast? = some a)) = 0 := by
          rw [evProb_congr_supp _ _ (fun _ => false)]
          · exact evProb_false _ _ (fun _ => rfl)
          · intro e he
            have hp := shuffle_supp_perm (k + 1) _ hl' e he
            simp only [decide_eq_false_iff_not]
            intro hl
            have : a ∈ e.1 := List.mem_of_getLast? hl
            exact hnotin (hja ▸ hp.subset this)
        rw [hzero]; ring
      · simp only [hij, if_false]
        have hne : xs[i] ≠ a := by
          intro e; exact hij ((List.Nodup.getElem_inj_iff hnd).1 (e.trans hja.symm))
        have hain : a ∈ dropIdx xs i := by
          rcases List.mem_cons.mp (hperm.symm.subset ha) with h | h
          · exact absurd h.symm hne
          · exact h
        rw [ih (dropIdx xs i) hnd' hl' hain]
    rw [List.map_congr_left key, rsum_indicator_compl (k + 1 + 1) j (by rw [← hlen]; exact hj)]
    have h1 : ((k + 1 + 1 : Nat) : Rat) ≠ 0 := by positivity
    have h2 : ((k + 1 : Nat) : Rat) ≠ 0 := by positivity
    push_cast
    field_simp
    ring

/-- non-vacuity: three tied candidates -/
example : evProb (shuffleDist 3 [0, 1, 2]) (fun σ => decide (σ.getLast? = some 1)) = 1 / 3 := by decide +kernel
example : evProb (shuffleDist 3 [0, 1, 2]) (fun σ => decide (σ.head? = some 2)) = 1 / 3 := by decide +kernel

end VK
