/-
  C03, random rule: "every transferable ballot of the winner is equally likely to be chosen".
  `random.sample(population, k)` picks a position uniformly, removes it, and repeats `k` times
  (the law also used for C17's tiebreak theorem). Under that law every one of the `n` transferable unit
  ballots is in the kept sample with probability exactly `k / n`.
-/
import VK.Props.C16Restrict
import VK.Props.C17
import VK.Props.C03

namespace VK
open Dist

/-- law of `random.sample(xs, k)`: `k` sequential uniform picks without replacement -/
def sampleK {α} : Nat → List α → Dist (List α)
  | 0, _ => Dist.pure []
  | k + 1, xs =>
    if xs.isEmpty then Dist.pure []
    else Dist.bind (Dist.uniform (List.range xs.length)) (fun i =>
      match xs[i]? with
      | some a => Dist.bind (sampleK k (dropIdx xs i)) (fun rest => Dist.pure (a :: rest))
      | none => Dist.pure [])

theorem rsum_const_mul' {α} (l : List α) (x : Rat) : rsum (l.map (fun _ => x)) = (l.length : Rat) * x := by
  rw [List.map_const', rsum_replicate]

theorem evProb_true_eq_mass {α} (d : Dist α) (E : α → Bool) (h : ∀ a, E a = true) : evProb d E = d.mass := by
  unfold evProb Dist.mass
  have : d.supp.filter (fun e => E e.1) = d.supp := by
    rw [List.filter_eq_self]; intro a _; exact h a.1
  rw [this]

theorem mass_pure' {α} (a : α) : (Dist.pure a).mass = 1 := by simp [Dist.mass, Dist.pure]

theorem sampleK_mass {α} (k : Nat) : ∀ xs : List α, (sampleK k xs).mass = 1 := by
  induction k with
  | zero => intro xs; exact mass_pure' _
  | succ k ih =>
    intro xs
    unfold sampleK
    split
    · exact mass_pure' _
    · rename_i hne
      rw [mass_bind]
      have hx : xs ≠ [] := by simpa [List.isEmpty_iff] using hne
      have hterm : ∀ ap ∈ (Dist.uniform (List.range xs.length)).supp,
          ap.2 * (match xs[ap.1]? with
            | some a => Dist.bind (sampleK k (dropIdx xs ap.1)) (fun rest => Dist.pure (a :: rest))
            | none => Dist.pure []).mass = ap.2 := by
        intro ap _
        cases xs[ap.1]? with
        | none => simp [mass_pure']
        | some a =>
          simp only
          rw [mass_bind]
          have : rsum ((sampleK k (dropIdx xs ap.1)).supp.map (fun rp => rp.2 * (Dist.pure (a :: rp.1)).mass)) =
              (sampleK k (dropIdx xs ap.1)).mass := by
            unfold Dist.mass Dist.pure; simp
          rw [this, ih, mul_one]
      rw [List.map_congr_left hterm]
      have := mass_uniform (List.range xs.length) (by
        intro h
        have : xs.length = 0 := by simpa using congrArg List.length h
        exact hx (List.length_eq_zero_iff.1 this))
      exact this

/-- **Every transferable ballot is equally likely to be kept.** Sampling `k ≤ n` of `n` distinct unit
ballots by sequential uniform picks keeps any given one of them with probability `k / n`. -/
theorem C03_sample_inclusion (k : Nat) : ∀ (xs : List Nat) (a : Nat), xs.Nodup → a ∈ xs → k ≤ xs.length →
    evProb (sampleK k xs) (fun s => decide (a ∈ s)) = (k : Rat) / (xs.length : Rat) := by
  induction k with
  | zero =>
    intro xs a _ _ _
    simp only [sampleK, Nat.cast_zero, zero_div]
    unfold evProb Dist.pure
    simp
  | succ k ih =>
    intro xs a hnd ha hk
    have hx : xs ≠ [] := List.ne_nil_of_mem ha
    have hne : xs.isEmpty = false := by simpa [List.isEmpty_iff] using hx
    have hnpos : 0 < xs.length := List.length_pos_of_mem ha
    unfold sampleK
    simp only [hne, Bool.false_eq_true, if_false]
    rw [evProb_bind]
    unfold Dist.uniform
    simp only [List.map_map, Function.comp_def, List.length_range]
    -- the index of `a`
    obtain ⟨j, hj, hja⟩ := List.getElem_of_mem ha
    have hj? : xs[j]? = some a := by rw [List.getElem?_eq_getElem hj, hja]
    -- value of each term
    refine Eq.trans (congrArg rsum (List.map_congr_left (g := fun i =>
        (if i = j then ((1 : Rat) / (xs.length : Rat)) * (1 - (k : Rat) / ((xs.length : Rat) - 1)) else 0) +
          ((1 : Rat) / (xs.length : Rat)) * ((k : Rat) / ((xs.length : Rat) - 1))) ?_)) ?_
    · -- value of each term
      intro i hi
      have hil : i < xs.length := List.mem_range.1 hi
      have hi? : xs[i]? = some xs[i] := List.getElem?_eq_getElem hil
      rw [hi?]
      simp only
      rw [evProb_bind_pure]
      by_cases hij : i = j
      · subst hij
        have hxa : xs[i] = a := hja
        rw [evProb_true_eq_mass _ _ (fun s => by simp [hxa]), sampleK_mass]
        simp only [if_true]; ring
      · have hne' : xs[i] ≠ a := by
          intro e
          exact hij ((List.Nodup.getElem_inj_iff hnd).1 (e.trans hja.symm))
        have hperm := dropIdx_perm xs i xs[i] hi?
        have hnd' : (dropIdx xs i).Nodup := (List.nodup_cons.1 (hperm.nodup_iff.2 hnd)).2
        have ha' : a ∈ dropIdx xs i := by
          have := hperm.mem_iff.2 ha
          rcases List.mem_cons.1 this with h | h
          · exact absurd h.symm hne'
          · exact h
        have hlen' : (dropIdx xs i).length = xs.length - 1 := by have := dropIdx_length xs i hil; omega
        have hk' : k ≤ (dropIdx xs i).length := by omega
        rw [evProb_congr _ _ (fun s => decide (a ∈ s)) (fun s => by simp [Ne.symm hne'])]
        rw [ih (dropIdx xs i) a hnd' ha' hk', hlen']
        simp only [hij, if_false, zero_add]
        have : ((xs.length - 1 : Nat) : Rat) = (xs.length : Rat) - 1 := by
          rw [Nat.cast_sub hnpos]; simp
        rw [this]
    · rw [rsum_map_add, rsum_indicator xs.length j hj, rsum_const_mul', List.length_range]
      -- algebra
      by_cases hn1 : xs.length = 1
      · have hk0 : k = 0 := by omega
        subst hk0
        simp [hn1]
      · have hn1' : (xs.length : Rat) - 1 ≠ 0 := by
          have : (1 : Rat) < (xs.length : Rat) := by exact_mod_cast (by omega : 1 < xs.length)
          linarith
        have hn0 : (xs.length : Rat) ≠ 0 := by exact_mod_cast (Nat.pos_iff_ne_zero.1 hnpos)
        push_cast
        field_simp
        ring

-- non-vacuity: keeping 2 of 3 ballots keeps ballot 7 with probability 2/3
example : evProb (sampleK 2 [5, 7, 9]) (fun s => decide (7 ∈ s)) = 2 / 3 := by decide +kernel

end VK
