/-
  Property C20 — invalid requests are rejected up front with the documented error.
  A model entry point returns `Outcome`; `raised e` carries no state list, so "no partial result"
  is part of every statement below.
-/
import VK.Model.Validate
import VK.Lemmas.Sum

namespace VK

theorem any_ranking_empty {p : Profile} (h : ∃ b ∈ p.ballots, b.ranking = []) :
    rankingValid p = false := by
  obtain ⟨b, hb, hr⟩ := h
  unfold rankingValid
  rw [List.all_eq_false]
  exact ⟨b, hb, by simp [hr]⟩

/-- **A score vector is accepted iff it is non-negative and non-increasing** (equal neighbours and
zeros are fine). -/
theorem C20_vector_valid_iff (v : List Rat) :
    validVector v = true ↔ (∀ x ∈ v, 0 ≤ x) ∧ v.Pairwise (fun a b => b ≤ a) := by
  induction v with
  | nil => simp [validVector]
  | cons x rest ih =>
    cases rest with
    | nil => simp [validVector]
    | cons y rest' =>
      simp only [validVector, Bool.and_eq_true, decide_eq_true_eq, ih]
      constructor
      · rintro ⟨⟨hx, hyx⟩, hall, hpw⟩
        refine ⟨?_, ?_⟩
        · intro z hz
          rcases List.mem_cons.1 hz with rfl | hz
          · exact hx
          · exact hall z hz
        · rw [List.pairwise_cons]
          refine ⟨?_, hpw⟩
          intro z hz
          rcases List.mem_cons.1 hz with rfl | hz
          · exact hyx
          · have := (List.pairwise_cons.1 hpw).1 z hz
            exact le_trans this hyx
      · rintro ⟨hall, hpw⟩
        rw [List.pairwise_cons] at hpw
        exact ⟨⟨hall x (by simp), hpw.1 y (by simp)⟩, fun z hz => hall z (by simp [hz]), hpw.2⟩

theorem bordaVector_valid (n : Nat) : validVector (bordaVector n) = true := by
  rw [C20_vector_valid_iff]
  constructor
  · intro x hx
    obtain ⟨i, _, rfl⟩ := List.mem_map.1 hx
    positivity
  · unfold bordaVector
    rw [List.pairwise_map]
    apply List.Pairwise.imp _ (List.pairwise_lt_range)
    intro a b hab
    have : n - b ≤ n - a := by omega
    exact_mod_cast this

/-- **A ballot without a ranking makes every ranking rule raise TypeError** (for the rules that
take `m`, once `m` itself is acceptable; Borda once its vector is). -/
theorem C20_ranking_rule_needs_rankings (p : Profile) (h : ∃ b ∈ p.ballots, b.ranking = []) :
    (∀ m tb pri, pluralityRun p m tb pri = .raised .typeError) ∧
    (∀ m tb pri, sntvRun p m tb pri = .raised .typeError) ∧
    (∀ m tb pri, bordaRun p m none tb pri = .raised .typeError) ∧
    (∀ tb pri, topTwoRun p tb pri = .raised .typeError) ∧
    (dominatingSetsRun p = .raised .typeError) ∧
    (∀ m pri, condoBordaRun p m pri = .raised .typeError) ∧
    (∀ (m : Int) ω, 0 < m → m ≤ p.cands.length → randomDictatorRun p m ω = .raised .typeError) ∧
    (∀ (m : Int) ω, 0 < m → m ≤ p.cands.length → boostedRun p m ω = .raised .typeError) ∧
    (∀ cfg ω qok, stvRun cfg p ω qok = .raised .typeError) ∧
    (∀ (m1 m2 : Int) cfg ω, 0 < m2 → m2 ≤ m1 → alaskaRun p m1 m2 cfg ω = .raised .typeError) := by
  have hv := any_ranking_empty h
  have hborda := bordaVector_valid p.cands.length
  refine ⟨?_, ?_, ?_, ?_, ?_, ?_, ?_, ?_, ?_, ?_⟩
  · intro m tb pri; simp [pluralityRun, hv]
  · intro m tb pri; simp [sntvRun, pluralityRun, hv]
  · intro m tb pri; simp [bordaRun, hv, hborda]
  · intro tb pri; simp [topTwoRun, hv]
  · simp [dominatingSetsRun, hv]
  · intro m pri; simp [condoBordaRun, hv]
  · intro m ω h1 h2
    have : ¬ (m ≤ 0 ∨ (p.cands.length : Int) < m) := by omega
    simp [randomDictatorRun, hv, this]
  · intro m ω h1 h2
    have : ¬ (m ≤ 0 ∨ (p.cands.length : Int) < m) := by omega
    simp [boostedRun, hv, this]
  · intro cfg ω qok
    obtain ⟨b, hb, hr⟩ := h
    have : stvValidProfile p = false := by
      unfold stvValidProfile; rw [List.all_eq_false]; exact ⟨b, hb, by simp [hr]⟩
    simp [stvRun, this]
  · intro m1 m2 cfg ω h1 h2
    have : ¬ (m1 ≤ 0 ∨ m2 ≤ 0 ∨ m1 < m2) := by omega
    unfold alaskaRun
    rw [if_neg (by simp only [Bool.or_eq_true, decide_eq_true_eq]; omega)]
    simp [hv]

/-- **STV-family validation.** A profile passes iff every ballot has a ranking without tied
positions; a failing profile is a TypeError; with a passing profile, a seat count outside `1..n`
or an unknown quota name is a ValueError. -/
theorem C20_stv_rejects (cfg : STVCfg) (p : Profile) (ω : STVOracle) (qok : Bool) :
    (stvValidProfile p = true ↔ ∀ b ∈ p.ballots, b.ranking ≠ [] ∧ ∀ s ∈ b.ranking, s.length ≤ 1) ∧
    (stvValidProfile p = false → stvRun cfg p ω qok = .raised .typeError) ∧
    (stvValidProfile p = true → (cfg.m = 0 ∨ p.cands.length < cfg.m) →
      stvRun cfg p ω qok = .raised .valueError) ∧
    (stvValidProfile p = true → ¬ (cfg.m = 0 ∨ p.cands.length < cfg.m) → qok = false →
      stvRun cfg p ω qok = .raised .valueError) := by
  refine ⟨?_, ?_, ?_, ?_⟩
  · unfold stvValidProfile
    simp only [List.all_eq_true, Bool.and_eq_true, Bool.not_eq_true', List.isEmpty_eq_false_iff,
      decide_eq_true_eq]
  · intro h; simp [stvRun, h]
  · intro h hm
    have : (cfg.m = 0 ∨ cfg.m > p.cands.length) := hm
    simp [stvRun, h, this]
  · intro h hm hq
    have : ¬ (cfg.m = 0 ∨ cfg.m > p.cands.length) := hm
    simp [stvRun, h, this, hq]

/-- **Alaska's stage sizes** must satisfy `m_1 ≥ m_2 ≥ 1`; anything else is a ValueError before the
profile is even looked at. -/
theorem C20_alaska_stage_sizes (p : Profile) (m1 m2 : Int) (cfg : STVCfg) (ω : STVOracle)
    (h : m1 ≤ 0 ∨ m2 ≤ 0 ∨ m1 < m2) : alaskaRun p m1 m2 cfg ω = .raised .valueError := by
  unfold alaskaRun
  rw [if_pos (by simp only [Bool.or_eq_true, decide_eq_true_eq]; omega)]

/-- an invalid vector is rejected by every entry point that takes one -/
theorem C20_vector_rejected (v : List Rat) (h : validVector v = false) (p : Profile) :
    scoreFromRankings p v = .raised .valueError ∧
    (v ≠ [] → ∀ m tb pri, bordaRun p m (some v) tb pri = .raised .valueError) := by
  constructor
  · simp [scoreFromRankings, h]
  · intro hne m tb pri
    cases v with
    | nil => exact absurd rfl hne
    | cons x xs => simp [bordaRun, h]

/-- **Rating arguments**: accepted iff `m > 0`, `L > 0` and, when a budget is given, `k > 0` and
`L ≤ k`; anything else is a ValueError. -/
theorem C20_rating_args_iff (p : Profile) (m : Int) (L : Rat) (k : Option Rat) (tb : Option TB)
    (pri : List Cand) :
    (ratingArgsOk m L k = true ↔ 0 < m ∧ 0 < L ∧ ∀ kk, k = some kk → 0 < kk ∧ L ≤ kk) ∧
    (ratingArgsOk m L k = false → generalRatingRun p m L k tb pri = .raised .valueError) := by
  constructor
  · unfold ratingArgsOk
    cases k with
    | none => simp
    | some kk =>
      simp only [Bool.and_eq_true, decide_eq_true_eq, Option.some.injEq, forall_eq']
      tauto
  · intro h; simp [generalRatingRun, h]

/-- RandomDictator and BoostedRandomDictator need `1 ≤ m ≤ n` -/
theorem C20_dictator_seats (p : Profile) (m : Int) (ω : RDOracle)
    (h : m ≤ 0 ∨ (p.cands.length : Int) < m) :
    randomDictatorRun p m ω = .raised .valueError ∧ boostedRun p m ω = .raised .valueError := by
  constructor
  · simp [randomDictatorRun, h]
  · simp [boostedRun, h]

/-- **Generator construction** succeeds iff candidates or slates are given and — when any of the
three bloc parameters is given — all three are, the bloc proportions sum to one, the three bloc
name sets coincide and every cohesion row sums to one; every failure is a ValueError. -/
theorem C20_gen_init_iff (a : GenArgs) :
    (genInit a = .ok () ↔
      (a.hasCandidates = true ∨ a.hasSlates = true) ∧
      ((a.hasIntervals = true ∨ a.hasCohesion = true ∨ a.hasProps = true) →
        a.hasIntervals = true ∧ a.hasCohesion = true ∧ a.hasProps = true ∧ a.propSum8 = 1 ∧
        a.propBlocs = a.intervalBlocs ∧ a.propBlocs = a.cohesionBlocs ∧
        ∀ s ∈ a.cohesionSums8, s = 1)) ∧
    (genInit a ≠ .ok () → genInit a = .raised .valueError) := by
  constructor
  · unfold genInit
    by_cases h1 : a.hasCandidates = true <;> by_cases h2 : a.hasSlates = true <;>
      by_cases h3 : a.hasIntervals = true <;> by_cases h4 : a.hasCohesion = true <;>
      by_cases h5 : a.hasProps = true <;>
      simp only [h1, h2, h3, h4, h5, Bool.not_eq_true] at * <;>
      simp [*] <;>
      (try (split_ifs <;> simp_all)) <;> (try assumption)
  · unfold genInit
    intro h
    split_ifs at h ⊢ <;> simp_all

/-- **Combining preference intervals** needs pairwise disjoint candidate sets and proportions that
sum to one; otherwise ValueError. -/
theorem C20_combine_iff (candSets : List (List Cand)) (s : Rat) :
    (combineCheck candSets s = .ok () ↔
      (sortCands candSets.flatten).length =
        (candSets.map (fun c => (sortCands c).length)).foldl (· + ·) 0 ∧ s = 1) ∧
    (combineCheck candSets s ≠ .ok () → combineCheck candSets s = .raised .valueError) := by
  constructor
  · unfold combineCheck
    split_ifs <;> simp_all
  · unfold combineCheck
    intro h
    split_ifs at h ⊢ <;> simp_all

/-- non-vacuity: boundary values -/
example : validVector [3, 3, 0] = true ∧ validVector [3, 3 + 1 / 1000000] = false ∧
    validVector [1, -1 / 1000000] = false ∧
    ratingArgsOk 1 1 (some 1) = true ∧ ratingArgsOk 1 1 (some 0) = false ∧
    ratingArgsOk 1 (1 + 1 / 1000000) (some 1) = false := by decide +kernel

end VK
