/-
  VK.Props.C08CandOrder — C08, "listing the candidates in a different order": running a rule on the same ballots
  with the declared candidates listed in another order gives the same rounds, each group and each score dictionary
  merely re-listed in the new order (`reRS`): same groups as sets, same tallies, same tiebreak resolutions, same
  exceptions. Single-round rules here; the STV family in `C08CandOrderSTV`.
-/
import VK.Lemmas.ReorderScore
import VK.Lemmas.Elect
import VK.Model.Rules
namespace VK

def reStates (c' : List Cand) (st : States) : States := st.map (reRS c')

/-- a scoring function that does not depend on the order of listing -/
structure OrderFree (score : Profile → Outcome (List (Cand × Rat))) : Prop where
  re : ∀ q c2, c2.Perm q.cands → score (withCands q c2) = (score q).map (reSc c2)
  keys : ∀ q sc, score q = .ok sc → sc.map (·.1) = q.cands

theorem orderFree_rankings (v : List Rat) : OrderFree (fun q => scoreFromRankings q v) :=
  ⟨fun q c2 h => scoreFromRankings_re q c2 h v, fun q sc h => scoreFromRankings_keys q v sc h⟩

theorem orderFree_fpv : OrderFree firstPlaceVotes :=
  ⟨fun q c2 h => firstPlaceVotes_re q c2 h, fun q sc h => scoreFromRankings_keys q _ sc h⟩

theorem orderFree_ballotScores : OrderFree scoreFromBallotScores := by
  refine ⟨fun q c2 h => scoreFromBallotScores_re q c2 h, ?_⟩
  intro q sc h
  unfold scoreFromBallotScores at h
  split at h
  · cases h
  · split at h
    · cases h
    · injection h with h; subst h; simp [Function.comp_def]

theorem topMRun_re (p : Profile) (c' : List Cand) (hperm : c'.Perm p.cands) (hN : p.cands.Nodup)
    (m : Nat) (tb : Option TB) (pri : List Cand) (score : Profile → Outcome (List (Cand × Rat))) (hs : OrderFree score) :
    topMRun (withCands p c') m tb pri score = (topMRun p m tb pri score).map (reStates c') := by
  have hN' : c'.Nodup := hperm.nodup_iff.mpr hN
  have hsub : SubOf c' p.cands := fun x hx => hperm.symm.subset hx
  unfold topMRun
  rw [hs.re p c' hperm]
  cases hsc0 : score p with
  | ok sc0 =>
    simp only [Outcome.map_ok, Outcome.bind_ok]
    have hk0 : sc0.map (·.1) = p.cands := hs.keys p sc0 hsc0
    have hk0n : (sc0.map (·.1)).Nodup := by rw [hk0]; exact hN
    have hk0s : SubOf c' (sc0.map (·.1)) := by rw [hk0]; exact hsub
    have hst0 : initialState (withCands p c').cands (some (reSc c' sc0)) = reRS c' (initialState p.cands (some sc0)) := by
      simp only [initialState, reRS, scoreToRanking_re c' sc0 hk0n hk0s, reR, List.map_nil]
    rw [hst0]
    have hrem : (reRS c' (initialState p.cands (some sc0))).remaining = reR c' (scoreToRanking sc0) := rfl
    have hrem0 : (initialState p.cands (some sc0)).remaining = scoreToRanking sc0 := rfl
    have hgood := scoreToRanking_groups_good c' sc0 hk0n hk0s true
    rw [hrem, hrem0, electFromRanking_re c' hN' pri p (withCands p c') tb (bordaScores_re p c' hperm)
      (firstPlaceVotes_re p c' hperm) hN hsub m _ hgood]
    cases hel : electFromRanking pri (scoreToRanking sc0) m (some p) tb with
    | ok r =>
      simp only [Outcome.map_ok, Outcome.bind_ok]
      -- the elected groups are made of declared candidates
      have hcount := electFromRanking_count pri (scoreToRanking sc0) m (some p) tb r
        (fun g hg => (hgood g hg).1)
        (fun q hq => by
          injection hq with hq; subst hq
          refine ⟨hN, fun g hg c hc => ?_⟩
          have := (hgood g hg).2 c hc
          exact hperm.subset this) hel
      have hesub : ∀ g ∈ r.elected, SubOf c' g := by
        intro g hg x hx
        have h1 : x ∈ r.elected.flatten := List.mem_flatten.mpr ⟨g, hg, hx⟩
        have h2 : x ∈ (scoreToRanking sc0).flatten := hcount.2.subset (List.mem_append_left _ h1)
        obtain ⟨g', hg', hx'⟩ := List.mem_flatten.mp h2
        exact (hgood g' hg').2 x hx'
      have hrc := removeCand_re p c' r.elected.flatten (reER c' r).elected.flatten
        (flatten_reR_mem c' r.elected hesub) true false
      rw [hrc]
      have hperm2 : (c'.filter (fun c => !r.elected.flatten.contains c)).Perm
          (removeCand r.elected.flatten p).cands := hperm.filter _
      rw [hs.re _ _ hperm2]
      cases hsc1 : score (removeCand r.elected.flatten p) with
      | ok sc1 =>
        simp only [Outcome.map_ok, Outcome.bind_ok, Outcome.pure_eq, reStates, List.map_cons, List.map_nil]
        have hk1 : sc1.map (·.1) = p.cands.filter (fun c => !r.elected.flatten.contains c) :=
          hs.keys _ sc1 hsc1
        rw [reSc_restrict c' _ sc1 (by rw [hk1]; intro x hx; exact (List.mem_filter.mp hx).2)]
        congr 2
        simp only [reRS, reER, reR, List.map_nil]
        congr 1
        cases r.tiebreak <;> rfl
      | raised e => rfl
      | oracleMismatch => rfl
      | outOfFuel => rfl
    | raised e => rfl
    | oracleMismatch => rfl
    | outOfFuel => rfl
  | raised e => rfl
  | oracleMismatch => rfl
  | outOfFuel => rfl

/-- **C08 (order of listing, Plurality / SNTV).** -/
theorem C08_plurality_cand_order (p : Profile) (c' : List Cand) (hperm : c'.Perm p.cands) (hN : p.cands.Nodup)
    (m : Nat) (tb : Option TB) (pri : List Cand) :
    pluralityRun (withCands p c') m tb pri = (pluralityRun p m tb pri).map (reStates c') := by
  unfold pluralityRun
  have : rankingValid (withCands p c') = rankingValid p := rfl
  rw [this]
  split
  · rfl
  · exact topMRun_re p c' hperm hN m tb pri _ orderFree_fpv

/-- **C08 (order of listing, Borda with any score vector).** -/
theorem C08_borda_cand_order (p : Profile) (c' : List Cand) (hperm : c'.Perm p.cands) (hN : p.cands.Nodup)
    (m : Nat) (v : Option (List Rat)) (tb : Option TB) (pri : List Cand) :
    bordaRun (withCands p c') m v tb pri = (bordaRun p m v tb pri).map (reStates c') := by
  unfold bordaRun
  have h1 : rankingValid (withCands p c') = rankingValid p := rfl
  have h2 : (withCands p c').cands.length = p.cands.length := hperm.length_eq
  rw [h1, h2]
  have key : ∀ vec : List Rat,
      (if !validVector vec then Outcome.raised .valueError
       else if !rankingValid p then .raised .typeError
       else topMRun (withCands p c') m tb pri (fun q => scoreFromRankings q vec)) =
      (if !validVector vec then Outcome.raised .valueError
       else if !rankingValid p then .raised .typeError
       else topMRun p m tb pri (fun q => scoreFromRankings q vec)).map (reStates c') := by
    intro vec
    split
    · rfl
    · split
      · rfl
      · exact topMRun_re p c' hperm hN m tb pri _ (orderFree_rankings vec)
  exact key _

/-- **C08 (order of listing, the score-ballot classes).** -/
theorem C08_rating_cand_order (p : Profile) (c' : List Cand) (hperm : c'.Perm p.cands) (hN : p.cands.Nodup)
    (m : Int) (L : Rat) (k : Option Rat) (tb : Option TB) (pri : List Cand) :
    generalRatingRun (withCands p c') m L k tb pri = (generalRatingRun p m L k tb pri).map (reStates c') := by
  unfold generalRatingRun
  have hb : (withCands p c').ballots = p.ballots := rfl
  rw [hb]
  split
  · rfl
  · split
    · rfl
    · exact topMRun_re p c' hperm hN m.toNat tb pri _ orderFree_ballotScores

theorem C08_scorerule_cand_order (rule : ScoreRule) (p : Profile) (c' : List Cand) (hperm : c'.Perm p.cands)
    (hN : p.cands.Nodup) (m : Int) (L : Rat) (k : Option Rat) (tb : Option TB) (pri : List Cand) :
    scoreRuleRun rule (withCands p c') m L k tb pri = (scoreRuleRun rule p m L k tb pri).map (reStates c') := by
  cases rule <;> simp only [scoreRuleRun]
  · exact C08_rating_cand_order p c' hperm hN m L k tb pri
  · exact C08_rating_cand_order p c' hperm hN m L none tb pri
  · have key : ∀ kk : Rat,
        (if (m : Rat) < kk then Outcome.raised .valueError
         else generalRatingRun (withCands p c') m kk (some kk) tb pri) =
        (if (m : Rat) < kk then Outcome.raised .valueError
         else generalRatingRun p m kk (some kk) tb pri).map (reStates c') := by
      intro kk
      split
      · rfl
      · exact C08_rating_cand_order p c' hperm hN m _ _ tb pri
    exact key _
  · exact C08_rating_cand_order p c' hperm hN m _ _ tb pri
  · exact C08_rating_cand_order p c' hperm hN m 1 none tb pri
  · exact C08_rating_cand_order p c' hperm hN m 1 _ tb pri

end VK
