/-
  C01 for PluralityVeto (Model/Veto.lean): whenever the rule returns a result — for every profile of
  whole-weight ranked ballots over declared candidates, every seat count, tiebreak, processing
  order and sample stream — it has elected EXACTLY m candidates, nobody before the last round, and
  at EVERY recorded round the remaining candidates, the winners so far and the candidates
  eliminated so far list each candidate exactly once.
  The rule does not always return (finding F-C01-f): `C01_veto_loops_at` is the kernel-checked
  witness of the endless loop, `C01_veto_finishes_when_no_zero_tally` the guard under which the
  loop is excluded.
-/
import VK.Model.Veto
import VK.Props.C01
import VK.Props.C01Dictator
import VK.Props.C14

namespace VK

/-! ### small facts about the building blocks -/

theorem decScore_keys (c : Cand) (sc sc' : List (Cand × Rat)) (v : Rat)
    (h : decScore c sc = .ok (sc', v)) : sc'.map (·.1) = sc.map (·.1) ∧ c ∈ sc.map (·.1) := by
  induction sc generalizing sc' v with
  | nil => simp [decScore] at h
  | cons x rest ih =>
    obtain ⟨d, s⟩ := x
    unfold decScore at h
    split at h
    · rename_i hd
      injection h with h
      injection h with h1 h2
      subst h1
      simp [hd]
    · cases hr : decScore c rest with
      | ok rv =>
        obtain ⟨r, v'⟩ := rv
        simp only [hr, bind, Outcome.bind, pure] at h
        injection h with h
        injection h with h1 h2
        subst h1
        obtain ⟨k1, k2⟩ := ih r v' hr
        simp [k1, k2]
      | raised e => simp [hr, bind, Outcome.bind] at h
      | oracleMismatch => simp [hr, bind, Outcome.bind] at h
      | outOfFuel => simp [hr, bind, Outcome.bind] at h

/-- the candidate struck by the veto loop is one of the candidates with a recorded tally -/
theorem vetoLoop_struck (p : Profile) (tb : Option TB) (order : List Nat) (i : Nat)
    (sc : List (Cand × Rat)) (smp : List (List Cand)) (tbs : List (List Cand × Ranking))
    (out : VetoOut) (c : Cand)
    (h : vetoLoop p tb order i sc smp tbs = .ok out) (hc : out.struck = some c) :
    c ∈ sc.map (·.1) := by
  induction order generalizing i sc smp tbs with
  | nil =>
    unfold vetoLoop at h
    split at h
    · cases h
    · injection h with h; subst h; cases hc
  | cons bi rest ih =>
    unfold vetoLoop at h
    split at h
    · cases h
    · rename_i b _
      split at h
      · exact ih _ _ _ _ h
      · rename_i lastPos _
        -- the common tail `step`
        have stepfact : ∀ (least : Cand) (smp' : List (List Cand)) (tbs' : List (List Cand × Ranking)),
            (do
              let (sc', v) ← decScore least sc
              if v ≤ 0 then pure (⟨some least, i, smp', tbs'⟩ : VetoOut)
              else vetoLoop p tb rest (i + 1) sc' smp' tbs') = .ok out → c ∈ sc.map (·.1) := by
          intro least smp' tbs' hs
          cases hd : decScore least sc with
          | ok r =>
            obtain ⟨sc', v⟩ := r
            obtain ⟨k1, k2⟩ := decScore_keys least sc sc' v hd
            simp only [hd, bind, Outcome.bind] at hs
            split at hs
            · simp only [pure] at hs
              injection hs with hs
              subst hs
              simp only [Option.some.injEq] at hc
              subst hc
              exact k2
            · have := ih _ _ _ _ hs
              rwa [k1] at this
          | raised e => simp [hd, bind, Outcome.bind] at hs
          | oracleMismatch => simp [hd, bind, Outcome.bind] at hs
          | outOfFuel => simp [hd, bind, Outcome.bind] at hs
        split at h
        · split at h
          · cases h
          · rename_i t
            cases ht : tiebreakSetS smp lastPos (tiebreakProfile p) t with
            | ok r =>
              obtain ⟨rk, smp'⟩ := r
              simp only [ht, bind, Outcome.bind] at h
              split at h
              · exact stepfact _ _ _ h
              · cases h
            | raised e => simp [ht, bind, Outcome.bind] at h
            | oracleMismatch => simp [ht, bind, Outcome.bind] at h
            | outOfFuel => simp [ht, bind, Outcome.bind] at h
        · split at h
          · exact stepfact _ _ _ h
          · cases h

/-- `c` stands in the first position of ballot `b` -/
def AtTop (c : Cand) (b : Ballot) : Prop := ∃ hd tl, b.ranking = hd :: tl ∧ c ∈ hd

/-- removing other candidates keeps a candidate in the first position, and the ballot's weight -/
theorem scrub_atTop (removed : List Cand) (b : Ballot) (c : Cand) (h : AtTop c b)
    (hc : removed.contains c = false) :
    AtTop c (scrubBallot removed b) ∧ (scrubBallot removed b).weight = b.weight := by
  obtain ⟨hd, tl, hr, hmem⟩ := h
  have hf : c ∈ hd.filter (fun c => !removed.contains c) := List.mem_filter.2 ⟨hmem, by rw [hc]; rfl⟩
  have hne : (hd.filter (fun c => !removed.contains c)).isEmpty = false := by
    cases hx : hd.filter (fun c => !removed.contains c) with
    | nil => rw [hx] at hf; cases hf
    | cons _ _ => rfl
  have hs : scrubRanking removed b.ranking =
      hd.filter (fun c => !removed.contains c) :: scrubRanking removed tl := by
    rw [hr]; unfold scrubRanking
    simp only [List.map_cons, List.filter_cons, hne, Bool.not_false, if_true]
  unfold scrubBallot
  simp only [hs, List.isEmpty_cons, Bool.false_and, Bool.false_eq_true, if_false]
  exact ⟨⟨_, _, rfl, hf⟩, trivial⟩

/-- a ballot gives no first-place share to a candidate outside its (non-empty) first position -/
theorem ballotPoints_fpv_not_top (n : Nat) (hd : List Cand) (rest : Ranking) (c : Cand)
    (hne : hd ≠ []) (hc : c ∉ hd) : ballotPoints (fpvVector n) (hd :: rest) c = 0 := by
  unfold ballotPoints
  simp only [positionAlloc, Nat.zero_add]
  have hcont : hd.contains c = false := by simpa using hc
  simp only [List.filter_cons, hcont, Bool.false_eq_true, if_false]
  apply rsum_zeros
  intro x hx
  obtain ⟨sa, hsa, rfl⟩ := List.mem_map.1 hx
  have hlen : 1 ≤ hd.length := by
    cases hd with
    | nil => exact absurd rfl hne
    | cons _ _ => simp
  exact alloc_zero n rest hd.length hlen sa (List.mem_filter.1 hsa).1

/-- a positive first-place tally needs a ballot with the candidate in its first position -/
theorem fpv_pos_atTop (q : Profile) (sc : List (Cand × Rat)) (h : firstPlaceVotes q = .ok sc)
    (hne : ∀ b ∈ q.ballots, b.ranking ≠ [])
    (hpos : ∀ b ∈ q.ballots, ∀ s ∈ b.ranking, s ≠ [])
    (c : Cand) (s : Rat) (hcs : (c, s) ∈ sc) (hs : 0 < s) : ∃ b ∈ q.ballots, AtTop c b := by
  by_contra hno
  have hno' : ∀ b ∈ q.ballots, ¬ AtTop c b := fun b hb hat => hno ⟨b, hb, hat⟩
  have hspec := C04_score_spec q (fpvVector q.cands.length) sc h
  rw [padVector_fpv] at hspec
  rw [hspec] at hcs
  obtain ⟨c', _, heq⟩ := List.mem_map.1 hcs
  injection heq with h1 h2
  subst h1
  have hz : rsum (q.ballots.map (fun b =>
      ballotPoints (fpvVector q.cands.length) (addMissingBallot q.cands b).ranking c' * b.weight)) = 0 := by
    apply rsum_zeros
    intro x hx
    obtain ⟨b, hb, rfl⟩ := List.mem_map.1 hx
    cases hr : b.ranking with
    | nil => exact absurd hr (hne b hb)
    | cons hd tl =>
      have hhd : hd ≠ [] := hpos b hb hd (by rw [hr]; simp)
      have hnot : c' ∉ hd := fun hm => hno' b hb ⟨hd, tl, hr, hm⟩
      have hrank : ∃ tl', (addMissingBallot q.cands b).ranking = hd :: tl' := by
        unfold addMissingBallot
        simp only [hr]
        split
        · exact ⟨tl, rfl⟩
        · exact ⟨tl ++ [missingCands q.cands (hd :: tl)], rfl⟩
      obtain ⟨tl', htl'⟩ := hrank
      rw [htl', ballotPoints_fpv_not_top _ hd tl' c' hhd hnot]
      simp
  rw [hz] at h2
  rw [← h2] at hs
  exact absurd hs (by simp)

/-! ### the working profile stays well formed -/

/-- what the rule's working profile looks like: declared candidates without repeats, ballots that
mention only those, no empty position, positive weight on every ballot that still ranks somebody,
no score ballots -/
structure PvWF (p : Profile) : Prop where
  nodup : p.cands.Nodup
  cast : ∀ b ∈ p.ballots, ∀ c ∈ b.ranking.flatten, c ∈ p.cands
  pos : ∀ b ∈ p.ballots, ∀ s ∈ b.ranking, s ≠ []
  wpos : ∀ b ∈ p.ballots, b.ranking ≠ [] → 0 < b.weight
  noscores : ∀ b ∈ p.ballots, b.scores = []

theorem removeCand_veto_ballots (removed : List Cand) (p : Profile) :
    (removeCand removed p (cond := false) (leaveZero := true)).ballots = p.ballots.map (scrubBallot removed) := by
  simp [removeCand, removeCandBallots, scrubBallots]

theorem removeCand_veto_cands (removed : List Cand) (p : Profile) :
    (removeCand removed p (cond := false) (leaveZero := true)).cands =
      p.cands.filter (fun c => !removed.contains c) := rfl

theorem scrubRanking_nil (removed : List Cand) : scrubRanking removed [] = [] := rfl

theorem pvWF_remove (removed : List Cand) (p : Profile) (h : PvWF p) :
    PvWF (removeCand removed p (cond := false) (leaveZero := true)) := by
  refine ⟨?_, ?_, ?_, ?_, ?_⟩
  · rw [removeCand_veto_cands]; exact h.nodup.filter _
  all_goals
    intro b' hb'
    rw [removeCand_veto_ballots] at hb'
    obtain ⟨b, hb, rfl⟩ := List.mem_map.1 hb'
  · intro c hc
    rw [removeCand_veto_cands]
    unfold scrubBallot at hc
    simp only at hc
    split at hc
    · simp at hc
    · simp only at hc
      rw [C12_order] at hc
      obtain ⟨h1, h2⟩ := List.mem_filter.1 hc
      exact List.mem_filter.2 ⟨h.cast b hb c h1, h2⟩
  · intro s hs
    unfold scrubBallot at hs
    simp only at hs
    split at hs
    · simp at hs
    · exact (scrubRanking_positions removed b.ranking s hs).1
  · intro hne
    unfold scrubBallot at hne ⊢
    simp only at hne ⊢
    split
    · rename_i hif
      simp [hif] at hne
    · apply h.wpos b hb
      intro e
      rename_i hif
      simp only [hif, Bool.false_eq_true, if_false] at hne
      rw [e, scrubRanking_nil] at hne
      exact hne rfl
  · unfold scrubBallot
    simp only
    split
    · rfl
    · simp [scrubScores, h.noscores b hb]

/-- every surviving candidate heads some ballot ⇒ the candidates found on the ballots that still
rank somebody are exactly the surviving candidates -/
theorem candsCast_scoreProfile (p : Profile) (h : PvWF p)
    (htop : ∀ c ∈ p.cands, ∃ b ∈ p.ballots, AtTop c b) :
    (scoreProfile p).cands.Perm p.cands := by
  unfold scoreProfile
  simp only
  apply (List.perm_ext_iff_of_nodup (sortCands_nodup _) h.nodup).2
  intro c
  rw [mem_sortCands]
  simp only [List.mem_flatMap, List.mem_filter, decide_eq_true_eq, Bool.not_eq_true']
  constructor
  · rintro ⟨b, ⟨⟨hb, _⟩, _⟩, hc⟩
    unfold Ballot.cands at hc
    rw [h.noscores b hb] at hc
    simp only [List.map_nil, List.append_nil] at hc
    exact h.cast b hb c hc
  · intro hc
    obtain ⟨b, hb, hd, tl, hr, hm⟩ := htop c hc
    have hne : b.ranking ≠ [] := by rw [hr]; simp
    refine ⟨b, ⟨⟨hb, by simp [hr]⟩, h.wpos b hb hne⟩, ?_⟩
    unfold Ballot.cands
    apply List.mem_append_left
    rw [hr]; simp [hm]

/-! ### the loop invariant -/

/-- what the rule maintains between the mutable election object `st`, the last recorded round
`prev` and the rounds recorded so far (`acc`, newest first) -/
structure PvInv (cands : List Cand) (st : PVState) (prev : RoundState) (acc : List RoundState) : Prop where
  wf : PvWF st.prof
  part : (st.prof.cands ++ eliminatedIn acc).Perm cands
  noelect : electedIn acc = []
  elim : st.elim.Perm (eliminatedIn acc)
  head : ∃ older, acc = prev :: older
  keys : ∀ c ∈ prev.scores.map (·.1), c ∈ st.prof.cands
  first : prev.round = 0 → firstPlaceVotes st.prof = .ok prev.scores ∧ ∀ b ∈ st.prof.ballots, b.ranking ≠ []
  later : prev.round ≠ 0 → ∀ c ∈ st.prof.cands, ∃ b ∈ st.prof.ballots, AtTop c b
  good : Good cands acc

theorem filter_contains_sortCands (l e : List Cand) :
    l.filter (fun c => !e.contains c) = l.filter (fun c => !(sortCands e).contains c) := by
  apply List.filter_congr
  intro c _
  congr 1
  rw [Bool.eq_iff_iff]
  simp [mem_sortCands]

/-- the candidates dropped in round 1 for having no first-place vote -/
def zeroOf (prev : RoundState) : List Cand :=
  if prev.round = 0 then (prev.scores.filter (fun cs => cs.2 ≤ 0)).map (·.1) else []

/-- the state recorded for an elimination round -/
@[reducible] def pvRecord (prev : RoundState) (elimNow : List Cand) (tbs : List (List Cand × Ranking))
    (sc : List (Cand × Rat)) : RoundState :=
  { round := prev.round + 1, remaining := scoreToRanking sc, elected := [],
    eliminated := (if (sortCands elimNow).isEmpty then [] else [sortCands elimNow]),
    tiebreaks := tbs, scores := sc }

/-- core of the round: whatever set `elimNow` of standing candidates (containing the zero-tally ones of
round 1) is removed, the invariant is re-established -/
theorem pvRound_core (cands : List Cand) (hcn : cands.Nodup) (st : PVState)
    (prev : RoundState) (acc : List RoundState) (inv : PvInv cands st prev acc)
    (elimNow : List Cand) (order' : List Nat) (smp' : List (List Cand)) (tbs : List (List Cand × Ranking))
    (sc : List (Cand × Rat))
    (hesub : ∀ c ∈ elimNow, c ∈ st.prof.cands) (hz : ∀ c ∈ zeroOf prev, c ∈ elimNow)
    (hf : firstPlaceVotes (scoreProfile (removeCand elimNow st.prof (cond := false) (leaveZero := true))) = .ok sc) :
    PvInv cands
      { prof := removeCand elimNow st.prof (cond := false) (leaveZero := true), order := order',
        elim := sortCands (st.elim ++ elimNow), samples := smp' }
      (pvRecord prev elimNow tbs sc)
      (pvRecord prev elimNow tbs sc :: acc) := by
  have hWn : (sortCands elimNow).Nodup := sortCands_nodup _
  have hWsub : ∀ c ∈ sortCands elimNow, c ∈ st.prof.cands := fun c hc => hesub c ((mem_sortCands c elimNow).1 hc)
  generalize hp' : removeCand elimNow st.prof (cond := false) (leaveZero := true) = p' at hf ⊢
  have hcands' : p'.cands = st.prof.cands.filter (fun c => !(sortCands elimNow).contains c) := by
    rw [← hp', removeCand_veto_cands]; exact filter_contains_sortCands _ _
  have hsplit : (p'.cands ++ sortCands elimNow).Perm st.prof.cands := by
    rw [hcands']; exact filter_not_contains_perm _ _ inv.wf.nodup hWn hWsub
  have hwf' : PvWF p' := by rw [← hp']; exact pvWF_remove elimNow st.prof inv.wf
  have helimflat : (if (sortCands elimNow).isEmpty then ([] : Ranking) else [sortCands elimNow]).flatten
      = sortCands elimNow := by
    split
    · rename_i hW
      have : sortCands elimNow = [] := by simpa using hW
      simp [this]
    · simp
  -- every surviving candidate still heads a ballot
  have htop' : ∀ c ∈ p'.cands, ∃ b ∈ p'.ballots, AtTop c b := by
    intro c hc
    rw [← hp', removeCand_veto_cands] at hc
    obtain ⟨hc1, hc2⟩ := List.mem_filter.1 hc
    have hc2' : elimNow.contains c = false := by simpa using hc2
    have hex : ∃ b ∈ st.prof.ballots, AtTop c b := by
      by_cases hr : prev.round = 0
      · obtain ⟨hfpv, hne⟩ := inv.first hr
        have hkeys := scoreFromRankings_keys _ _ _ hfpv
        have hcmem : c ∈ prev.scores.map (·.1) := by rw [hkeys]; exact hc1
        obtain ⟨cs, hcs, rfl⟩ := List.mem_map.1 hcmem
        have hnz : cs.1 ∉ zeroOf prev := by
          intro hzz
          have : cs.1 ∈ elimNow := hz _ hzz
          have : elimNow.contains cs.1 = true := by simpa using this
          rw [this] at hc2'; cases hc2'
        have hpos : 0 < cs.2 := by
          by_contra hle
          have hle' : cs.2 ≤ 0 := by simpa using hle
          apply hnz
          unfold zeroOf
          simp only [hr, if_true]
          exact List.mem_map.2 ⟨cs, List.mem_filter.2 ⟨hcs, by simpa using hle'⟩, rfl⟩
        exact fpv_pos_atTop st.prof prev.scores hfpv hne inv.wf.pos cs.1 cs.2 hcs hpos
      · exact inv.later hr c hc1
    obtain ⟨b, hb, hat⟩ := hex
    refine ⟨scrubBallot elimNow b, ?_, (scrub_atTop elimNow b c hat hc2').1⟩
    rw [← hp', removeCand_veto_ballots]
    exact List.mem_map.2 ⟨b, hb, rfl⟩
  have hkeys' : sc.map (·.1) = (scoreProfile p').cands := scoreFromRankings_keys _ _ _ hf
  have hcast' : (scoreProfile p').cands.Perm p'.cands := candsCast_scoreProfile p' hwf' htop'
  have hrem : (scoreToRanking sc).flatten.Perm p'.cands := by
    have := scoreToRanking_perm sc
    rw [hkeys'] at this
    exact this.trans hcast'
  have hpart' : (p'.cands ++ (sortCands elimNow ++ eliminatedIn acc)).Perm cands := by
    rw [← List.append_assoc]
    exact (List.Perm.append_right _ hsplit).trans inv.part
  have helimIn : eliminatedIn (pvRecord prev elimNow tbs sc :: acc)
      = sortCands elimNow ++ eliminatedIn acc := by
    rw [eliminatedIn_cons]; simp only [helimflat]
  have helectIn : electedIn (pvRecord prev elimNow tbs sc :: acc) = [] := by
    rw [electedIn_cons]; simp [inv.noelect]
  refine ⟨hwf', ?_, helectIn, ?_, ⟨acc, rfl⟩, ?_, ?_, ?_, ⟨?_, inv.good⟩⟩
  · rw [helimIn]; exact hpart'
  · -- the running set of eliminated candidates
    rw [helimIn]
    have hnd : (sortCands elimNow ++ eliminatedIn acc).Nodup := by
      have : (p'.cands ++ (sortCands elimNow ++ eliminatedIn acc)).Nodup := hpart'.nodup_iff.2 hcn
      exact (List.nodup_append.1 this).2.1
    apply (List.perm_ext_iff_of_nodup (sortCands_nodup _) hnd).2
    intro c
    simp only [mem_sortCands, List.mem_append, inv.elim.mem_iff]
    exact Or.comm
  · intro c hc
    simp only at hc
    rw [hkeys'] at hc
    exact hcast'.mem_iff.1 hc
  · intro h0; simp at h0
  · intro _; exact htop'
  · rw [helimIn, helectIn, List.append_nil]
    exact (List.Perm.append_right _ hrem).trans hpart'

/-- **One elimination round keeps the invariant.** -/
theorem pvRound_inv (cands : List Cand) (hcn : cands.Nodup) (tb : Option TB) (st st' : PVState)
    (prev s : RoundState) (acc : List RoundState) (inv : PvInv cands st prev acc)
    (h : pvRound tb st prev = .ok (st', s)) : PvInv cands st' s (s :: acc) := by
  unfold pvRound at h
  cases hv : vetoLoop st.prof tb st.order 0 prev.scores st.samples [] with
  | raised e => simp [hv, bind, Outcome.bind] at h
  | oracleMismatch => simp [hv, bind, Outcome.bind] at h
  | outOfFuel => simp [hv, bind, Outcome.bind] at h
  | ok out =>
    simp only [hv, bind, Outcome.bind] at h
    have hzsub : ∀ c ∈ zeroOf prev, c ∈ st.prof.cands := by
      intro c hc
      unfold zeroOf at hc
      split at hc
      · obtain ⟨cs, hcs, rfl⟩ := List.mem_map.1 hc
        exact inv.keys _ (List.mem_map.2 ⟨cs, (List.mem_filter.1 hcs).1, rfl⟩)
      · cases hc
    cases hs : out.struck with
    | none =>
      simp only [hs] at h
      cases hf : firstPlaceVotes (scoreProfile (removeCand (zeroOf prev) st.prof (cond := false) (leaveZero := true))) with
      | ok sc =>
        unfold zeroOf at hf
        simp only [hf, pure] at h
        injection h with h
        injection h with h1 h2
        subst h1 h2
        exact pvRound_core cands hcn st prev acc inv (zeroOf prev) _ _ _ sc hzsub (fun c hc => hc) hf
      | raised e => unfold zeroOf at hf; simp [hf] at h
      | oracleMismatch => unfold zeroOf at hf; simp [hf] at h
      | outOfFuel => unfold zeroOf at hf; simp [hf] at h
    | some c0 =>
      simp only [hs] at h
      have hc0 : c0 ∈ st.prof.cands := inv.keys _ (vetoLoop_struck _ _ _ _ _ _ _ out c0 hv hs)
      cases hf : firstPlaceVotes (scoreProfile (removeCand (zeroOf prev ++ [c0]) st.prof (cond := false) (leaveZero := true))) with
      | ok sc =>
        unfold zeroOf at hf
        simp only [hf, pure] at h
        injection h with h
        injection h with h1 h2
        subst h1 h2
        refine pvRound_core cands hcn st prev acc inv (zeroOf prev ++ [c0]) _ _ _ sc ?_ (fun c hc => List.mem_append_left _ hc) hf
        intro c hc
        rcases List.mem_append.1 hc with h1 | h1
        · exact hzsub c h1
        · simp only [List.mem_singleton] at h1; subst h1; exact hc0
      | raised e => unfold zeroOf at hf; simp [hf] at h
      | oracleMismatch => unfold zeroOf at hf; simp [hf] at h
      | outOfFuel => unfold zeroOf at hf; simp [hf] at h

/-- **The loop.** Whatever the loop returns has elected exactly `m` candidates, all of them in the last
round, and every recorded round partitions the candidates. -/
theorem pvLoop_spec (cands : List Cand) (hcn : cands.Nodup) (m : Nat) (tb : Option TB) (fuel : Nat)
    (st : PVState) (prev : RoundState) (acc : List RoundState) (states : States)
    (inv : PvInv cands st prev acc)
    (h : pvLoop m tb cands.length fuel st prev acc = .ok states) :
    Good cands states.reverse ∧ (electedOf states).length = m ∧
      ∃ fin older, states.reverse = fin :: older ∧ electedIn older = [] := by
  induction fuel generalizing st prev acc with
  | zero => simp [pvLoop] at h
  | succ fuel ih =>
    unfold pvLoop at h
    split at h
    · rename_i hm
      obtain ⟨older, hacc⟩ := inv.head
      have hgood := inv.good
      rw [hacc] at hgood
      obtain ⟨hperm, _⟩ := hgood
      rw [← hacc, inv.noelect, List.append_nil] at hperm
      have hlen : prev.remaining.flatten.length + (eliminatedIn acc).length = cands.length := by
        have := hperm.length_eq
        simpa using this
      have helen : st.elim.length = (eliminatedIn acc).length := inv.elim.length_eq
      have hfinE : electedIn ({ round := prev.round + 1, elected := prev.remaining } :: acc) = prev.remaining.flatten := by
        rw [electedIn_cons]; simp [inv.noelect]
      have hcount : (electedOf ({ round := prev.round + 1, elected := prev.remaining } :: acc)).length = m := by
        show (electedIn _).length = m
        rw [hfinE]; omega
      simp only [hcount, ge_iff_le, le_refl, if_true] at h
      split at h
      · injection h with h
        subst h
        rw [List.reverse_reverse]
        refine ⟨⟨?_, inv.good⟩, ?_, ⟨_, acc, rfl, inv.noelect⟩⟩
        · rw [hfinE, eliminatedIn_cons]
          simpa using hperm
        · have := electedIn_reverse_length ({ round := prev.round + 1, elected := prev.remaining } :: acc)
          show (electedIn _).length = m
          rw [this]; exact hcount
      · cases h
    · cases hr : pvRound tb st prev with
      | ok r =>
        obtain ⟨st', s⟩ := r
        simp only [hr, bind, Outcome.bind] at h
        exact ih st' s (s :: acc) (pvRound_inv cands hcn tb st st' prev s acc inv hr) h
      | raised e => simp [hr, bind, Outcome.bind] at h
      | oracleMismatch => simp [hr, bind, Outcome.bind] at h
      | outOfFuel => simp [hr, bind, Outcome.bind] at h

theorem mem_decondense (bs : List Ballot) (b' : Ballot) (h : b' ∈ decondense bs) :
    ∃ b ∈ bs, b'.ranking = b.ranking ∧ b'.weight = 1 ∧ b'.scores = [] := by
  unfold decondense at h
  obtain ⟨b, hb, hm⟩ := List.mem_flatMap.1 h
  have := (List.mem_replicate.1 hm).2
  exact ⟨b, hb, by rw [this], by rw [this], by rw [this]⟩

/-- **C01 for PluralityVeto.** For every profile with a duplicate-free candidate list whose ballots
mention only declared candidates and have no empty position, every seat count, tiebreak, processing
order and sample stream: if the rule returns, it has elected exactly `m` candidates, all in its last
round, and at every recorded round the remaining candidates, the winners so far and the candidates
eliminated so far list each candidate exactly once. -/
theorem C01_veto_exactly_m_and_partition (p : Profile) (m : Int) (tb : Option TB) (ω : PVOracle) (states : States)
    (hn : p.cands.Nodup)
    (hcast : ∀ b ∈ p.ballots, ∀ c ∈ b.ranking.flatten, c ∈ p.cands)
    (hpos : ∀ b ∈ p.ballots, ∀ s ∈ b.ranking, s ≠ [])
    (h : pluralityVetoRun p m tb ω = .ok states) :
    ((electedOf states).length : Int) = m ∧ Good p.cands states.reverse ∧
      ∃ fin older, states.reverse = fin :: older ∧ electedIn older = [] := by
  unfold pluralityVetoRun at h
  cases hv : pluralityVetoValidate p m tb with
  | raised e => simp [hv, bind, Outcome.bind] at h
  | oracleMismatch => simp [hv, bind, Outcome.bind] at h
  | outOfFuel => simp [hv, bind, Outcome.bind] at h
  | ok u =>
    simp only [hv, bind, Outcome.bind] at h
    split at h; · cases h
    -- what the constructor checks give
    have hne : ∀ b ∈ p.ballots, b.ranking ≠ [] := by
      unfold pluralityVetoValidate at hv
      split at hv; · cases hv
      rename_i hany
      intro b hb e
      apply hany
      exact List.any_eq_true.2 ⟨b, hb, by simp [e]⟩
    have hmpos : 0 < m := by
      unfold pluralityVetoValidate at hv
      split at hv; · cases hv
      split at hv; · cases hv
      split at hv
      · cases hv
      · rename_i hm
        simp only [Bool.or_eq_true, decide_eq_true_eq, not_or, not_le] at hm
        exact hm.1
    cases hf : firstPlaceVotes { ballots := decondense p.ballots, cands := p.cands } with
    | raised e => simp [hf] at h
    | oracleMismatch => simp [hf] at h
    | outOfFuel => simp [hf] at h
    | ok sc0 =>
      simp only [hf] at h
      have hkeys : sc0.map (·.1) = p.cands :=
        scoreFromRankings_keys { ballots := decondense p.ballots, cands := p.cands } _ _ hf
      have hrem0 : (scoreToRanking sc0).flatten.Perm p.cands := by
        have := scoreToRanking_perm sc0
        rwa [hkeys] at this
      have inv : PvInv p.cands
          { prof := { ballots := decondense p.ballots, cands := p.cands }, order := ω.order, elim := [],
            samples := ω.samples }
          (initialState p.cands (some sc0)) [initialState p.cands (some sc0)] := by
        refine ⟨⟨hn, ?_, ?_, ?_, ?_⟩, ?_, ?_, ?_, ⟨[], rfl⟩, ?_, ?_, ?_, ⟨?_, trivial⟩⟩
        · intro b' hb' c hc
          obtain ⟨b, hb, hr, _, _⟩ := mem_decondense _ b' hb'
          rw [hr] at hc; exact hcast b hb c hc
        · intro b' hb' s hs
          obtain ⟨b, hb, hr, _, _⟩ := mem_decondense _ b' hb'
          rw [hr] at hs; exact hpos b hb s hs
        · intro b' hb' _
          obtain ⟨b, hb, _, hw, _⟩ := mem_decondense _ b' hb'
          rw [hw]; decide
        · intro b' hb'
          obtain ⟨b, hb, _, _, hs⟩ := mem_decondense _ b' hb'
          exact hs
        · simp [eliminatedIn, initialState]
        · simp [electedIn, initialState]
        · simp [eliminatedIn, initialState]
        · intro c hc
          simp only [initialState] at hc
          rw [hkeys] at hc; exact hc
        · intro _
          refine ⟨by simpa [initialState] using hf, ?_⟩
          intro b' hb'
          obtain ⟨b, hb, hr, _, _⟩ := mem_decondense _ b' hb'
          rw [hr]; exact hne b hb
        · intro h0; simp [initialState] at h0
        · simpa [initialState, electedIn, eliminatedIn] using hrem0
      obtain ⟨hg, hc, hlast⟩ := pvLoop_spec p.cands hn m.toNat tb _ _ _ _ states inv h
      refine ⟨?_, hg, hlast⟩
      rw [hc]; omega

/-! ### non-vacuity and the endless loop (finding F-C01-f) -/

/-- A>B>C x2, B>A>C x1, C>B>A x1 over A,B,C: everybody has a first-place vote -/
def vetoProfile : Profile :=
  { ballots := [{ ranking := [[0], [1], [2]], weight := 2 }, { ranking := [[1], [0], [2]], weight := 1 },
                { ranking := [[2], [1], [0]], weight := 1 }],
    cands := [0, 1, 2] }

/-- the hypotheses of `C01_veto_exactly_m_and_partition` are met by a run that returns a result -/
example : (pluralityVetoRun vetoProfile 1 none { order := [2, 0, 3, 1] }).isOk = true := by decide +kernel

/-- A>B>C x3 with two seats: B and C have no first-place vote, round 1 drops both and the veto of the
first voter cannot strike anybody else; one candidate is left for two seats and the loop never ends
(the model runs out of fuel; the implementation is stopped by the CPU-time alarm) -/
theorem C01_veto_loops_at :
    pluralityVetoRun { ballots := [{ ranking := [[0], [1], [2]], weight := 3 }], cands := [0, 1, 2] } 2 none
      { order := [0, 1, 2] } = .outOfFuel := by decide +kernel

end VK
