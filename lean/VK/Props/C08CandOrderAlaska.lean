/-
  VK.Props.C08CandOrderAlaska — C08, "listing the candidates in a different order", Alaska (fractional or full-weight
  transfer): the finalists' stage is a single-round count, the second stage is the STV count on the finalists'
  profile; every state of an STV count mentions declared candidates only (`stvRun_mentions`), so re-listing in the
  order of the finalists' sublist and in the order of the full list agree.
-/
import VK.Props.C08CandOrderTopTwo
import VK.Props.C08CandOrderSTV
namespace VK

theorem electChoice_tbs_mem (cfg : STVCfg) (q : Int) (ω : STVOracle) (rnd : Nat) (S : CState) (prev : RoundState)
    (g : Ranking) (tbs : List (List Cand × Ranking)) (hn : S.hopeful.Nodup)
    (hrem : prev.remaining.flatten.Perm S.hopeful)
    (h : electChoice cfg q ω rnd S prev = .ok (g, tbs)) :
    ∀ t ∈ tbs, ∀ x ∈ t.1 ++ t.2.flatten, x ∈ S.hopeful := by
  have hrn : prev.remaining.flatten.Nodup := hrem.nodup_iff.2 hn
  unfold electChoice at h
  split at h
  · simp only [pure, Outcome.ok.injEq, Prod.mk.injEq] at h
    obtain ⟨_, h2⟩ := h
    subst h2
    intro t ht; cases ht
  · cases he : electFromRanking (ω.pri rnd) prev.remaining 1 (some (currentProfile S)) cfg.tiebreak with
    | ok r =>
      simp only [he, bind, Outcome.bind, pure, Outcome.ok.injEq, Prod.mk.injEq] at h
      obtain ⟨_, h2⟩ := h
      subst h2
      have hnd : ∀ x ∈ prev.remaining, x.Nodup := fun x hx => (List.nodup_flatten.1 hrn).1 x hx
      have hsub : ∀ p, some (currentProfile S) = some p → p.cands.Nodup ∧ ∀ x ∈ prev.remaining, ∀ c ∈ x, c ∈ p.cands := by
        intro p hp
        injection hp with hp; subst hp
        exact ⟨hn, fun x hx c hc => hrem.mem_iff.1 (List.mem_flatten.2 ⟨x, hx, hc⟩)⟩
      intro t ht x hx
      cases htb : r.tiebreak with
      | none => rw [htb] at ht; cases ht
      | some t0 =>
        rw [htb] at ht
        simp only [List.mem_singleton] at ht
        subst ht
        unfold electFromRanking at he
        split at he
        · cases he
        · split at he
          · cases he
          · obtain ⟨pre, post, hsplit, hcase⟩ := electLoop_spec (ω.pri rnd) (some (currentProfile S)) cfg.tiebreak 1 []
              prev.remaining r hnd hsub he
            rcases hcase with ⟨hnone, _⟩ | ⟨g0, post', broken, t', hpost, hsome, _, _, _, _, hbp, _, _, _⟩
            · rw [hnone] at htb; cases htb
            · rw [hsome] at htb
              injection htb with htb; subst htb
              have hg : g0 ∈ prev.remaining := by rw [hsplit, hpost]; simp
              have hgin : ∀ y ∈ g0, y ∈ S.hopeful := fun y hy => hrem.mem_iff.1 (List.mem_flatten.2 ⟨g0, hg, hy⟩)
              rcases List.mem_append.mp hx with h1 | h1
              · exact hgin x h1
              · exact hgin x (hbp.subset h1)
    | raised e => simp [he, bind, Outcome.bind] at h
    | oracleMismatch => simp [he, bind, Outcome.bind] at h
    | outOfFuel => simp [he, bind, Outcome.bind] at h

theorem loserChoice_tbs_mem (init : Profile) (ω : STVOracle) (rnd : Nat) (lowest : List Cand) (c : Cand)
    (tbs : List (List Cand × Ranking)) (hl : lowest.Nodup) (hi : init.cands.Nodup)
    (hsub : ∀ x ∈ lowest, x ∈ init.cands) (h : loserChoice init ω rnd lowest = .ok (c, tbs)) :
    ∀ t ∈ tbs, ∀ x ∈ t.1 ++ t.2.flatten, x ∈ lowest := by
  unfold loserChoice at h
  split at h
  · cases ht : tiebreakSet (ω.pri rnd) lowest (some init) .firstPlace with
    | ok t =>
      simp only [ht, bind, Outcome.bind] at h
      have hspec := tiebreakSet_spec (ω.pri rnd) lowest (some init) .firstPlace t hl
        (fun p hp => by injection hp with hp; subst hp; exact ⟨hi, hsub⟩) ht
      split at h
      · simp only [pure, Outcome.ok.injEq, Prod.mk.injEq] at h
        obtain ⟨_, h2⟩ := h
        subst h2
        intro t' ht' x hx
        simp only [List.mem_singleton] at ht'
        subst ht'
        rcases List.mem_append.mp hx with h1 | h1
        · exact h1
        · exact hspec.1.subset h1
      · cases h
    | raised e => simp [ht, bind, Outcome.bind] at h
    | oracleMismatch => simp [ht, bind, Outcome.bind] at h
    | outOfFuel => simp [ht, bind, Outcome.bind] at h
  · split at h
    · simp only [pure, Outcome.ok.injEq, Prod.mk.injEq] at h
      obtain ⟨_, h2⟩ := h
      subst h2
      intro t ht; cases ht
    · cases h

/-- a recorded round of the count mentions hopeful-at-its-start candidates only -/
theorem stvStep_mentions (cfg : STVCfg) (init : Profile) (q : Int) (ω : STVOracle) (rnd : Nat)
    (S S' : CState) (prev r : RoundState) (hi : init.cands.Nodup) (hI : ReInv init.cands S prev)
    (h : stvStep cfg init q ω rnd S prev = .ok (S', r)) : ∀ x ∈ stateCands r, x ∈ init.cands := by
  have hI' := reInv_step init.cands cfg init q ω rnd S S' prev r hI h
  have hremperm : prev.remaining.flatten.Perm S.hopeful := by
    rw [hI.rem, ← hI.keys]; exact scoreToRanking_perm prev.scores
  have hrem' : r.remaining.flatten.Perm S'.hopeful := by
    rw [hI'.rem, ← hI'.keys]; exact scoreToRanking_perm r.scores
  have hbase : ∀ x, x ∈ r.remaining.flatten ∨ x ∈ r.scores.map (·.1) → x ∈ init.cands := by
    intro x hx
    rcases hx with hx | hx
    · exact hI'.sub x (hrem'.subset hx)
    · rw [hI'.keys] at hx; exact hI'.sub x hx
  -- elected / eliminated / tiebreaks, case by case
  unfold stvStep at h
  simp only at h
  split at h
  · cases he : electChoice cfg q ω rnd S prev with
    | ok gt =>
      obtain ⟨g, tbs⟩ := gt
      simp only [he, bind, Outcome.bind] at h
      cases ha : applyTransfers cfg S.hopeful q (ω.sample rnd) g.flatten S.bs with
      | ok bs' =>
        simp only [ha, pure, Outcome.ok.injEq, Prod.mk.injEq] at h
        obtain ⟨h1, h2⟩ := h
        have hspec := electChoice_spec cfg q ω rnd S prev g tbs hI.nodup hremperm he
        have htbs := electChoice_tbs_mem cfg q ω rnd S prev g tbs hI.nodup hremperm he
        intro x hx
        simp only [stateCands, List.mem_append, List.mem_flatMap] at hx
        rcases hx with (((hx | hx) | hx) | hx) | hx
        · exact hbase x (Or.inl hx)
        · rw [← h2] at hx; exact hI.sub x (hspec.2 x hx)
        · rw [← h2] at hx; simp at hx
        · obtain ⟨t, ht, hxt⟩ := hx
          rw [← h2] at ht
          exact hI.sub x (htbs t ht x (List.mem_append.mpr hxt))
        · exact hbase x (Or.inr hx)
      | raised e => simp [ha] at h
      | oracleMismatch => simp [ha] at h
      | outOfFuel => simp [ha] at h
    | raised e => simp [he, bind, Outcome.bind] at h
    | oracleMismatch => simp [he, bind, Outcome.bind] at h
    | outOfFuel => simp [he, bind, Outcome.bind] at h
  · split at h
    · simp only [pure, Outcome.ok.injEq, Prod.mk.injEq] at h
      obtain ⟨_, h2⟩ := h
      intro x hx
      simp only [stateCands, List.mem_append, List.mem_flatMap] at hx
      rcases hx with (((hx | hx) | hx) | hx) | hx
      · exact hbase x (Or.inl hx)
      · rw [← h2] at hx; exact hI.sub x (hremperm.subset hx)
      · rw [← h2] at hx; simp at hx
      · obtain ⟨t, ht, _⟩ := hx; rw [← h2] at ht; cases ht
      · exact hbase x (Or.inr hx)
    · cases hl : prev.remaining.getLast? with
      | none => simp [hl] at h
      | some lowest =>
        simp only [hl] at h
        have hlmem : lowest ∈ prev.remaining := getLast?_mem _ _ hl
        have hlg := hI.groups lowest hlmem
        have hlsub : ∀ x ∈ lowest, x ∈ init.cands := hlg.2
        cases hc : loserChoice init ω rnd lowest with
        | ok ct =>
          obtain ⟨c, tbs⟩ := ct
          simp only [hc, bind, Outcome.bind, pure, Outcome.ok.injEq, Prod.mk.injEq] at h
          obtain ⟨_, h2⟩ := h
          have hcm := loserChoice_mem init ω rnd lowest c tbs hlg.1 hi hlsub hc
          have htbs := loserChoice_tbs_mem init ω rnd lowest c tbs hlg.1 hi hlsub hc
          intro x hx
          simp only [stateCands, List.mem_append, List.mem_flatMap] at hx
          rcases hx with (((hx | hx) | hx) | hx) | hx
          · exact hbase x (Or.inl hx)
          · rw [← h2] at hx; simp at hx
          · rw [← h2] at hx
            simp only [List.flatten_cons, List.flatten_nil, List.append_nil, List.mem_singleton] at hx
            rw [hx]; exact hlsub c hcm
          · obtain ⟨t, ht, hxt⟩ := hx
            rw [← h2] at ht
            exact hlsub x (htbs t ht x (List.mem_append.mpr hxt))
          · exact hbase x (Or.inr hx)
        | raised e => simp [hc, bind, Outcome.bind] at h
        | oracleMismatch => simp [hc, bind, Outcome.bind] at h
        | outOfFuel => simp [hc, bind, Outcome.bind] at h

theorem stvLoop_mentions (cfg : STVCfg) (init : Profile) (q : Int) (ω : STVOracle) (hi : init.cands.Nodup)
    (fuel : Nat) (S : CState) (prev : RoundState) (hI : ReInv init.cands S prev)
    (acc tr : List (RoundState × CState)) (hacc : ∀ y ∈ acc, ∀ x ∈ stateCands y.1, x ∈ init.cands)
    (h : stvLoop cfg init q ω fuel S prev acc = .ok tr) : ∀ y ∈ tr, ∀ x ∈ stateCands y.1, x ∈ init.cands := by
  induction fuel generalizing S prev acc with
  | zero =>
    unfold stvLoop at h
    split at h
    · injection h with h; subst h
      intro y hy; exact hacc y (List.mem_reverse.mp hy)
    · cases h
  | succ n ih =>
    unfold stvLoop at h
    split at h
    · injection h with h; subst h
      intro y hy; exact hacc y (List.mem_reverse.mp hy)
    · cases hst : stvStep cfg init q ω (prev.round + 1) S prev with
      | ok x =>
        obtain ⟨S', r⟩ := x
        simp only [hst, bind, Outcome.bind] at h
        refine ih S' r (reInv_step init.cands cfg init q ω _ S S' prev r hI hst) ((r, S') :: acc) ?_ h
        intro y hy
        rcases List.mem_cons.mp hy with rfl | hy
        · exact stvStep_mentions cfg init q ω _ S S' prev r hi hI hst
        · exact hacc y hy
      | raised e => simp [hst, bind, Outcome.bind] at h
      | oracleMismatch => simp [hst, bind, Outcome.bind] at h
      | outOfFuel => simp [hst, bind, Outcome.bind] at h

/-- **every recorded round of an STV count mentions declared candidates only** -/
theorem stvRun_mentions (cfg : STVCfg) (p : Profile) (ω : STVOracle) (quotaOk : Bool) (hN : p.cands.Nodup)
    (res : STVResult) (h : stvRun cfg p ω quotaOk = .ok res) : ∀ s ∈ res.states, ∀ x ∈ stateCands s, x ∈ p.cands := by
  unfold stvRun at h
  split at h; · cases h
  split at h; · cases h
  split at h; · cases h
  cases hsc : firstPlaceVotes p with
  | ok sc0 =>
    simp only [hsc, bind, Outcome.bind] at h
    have hk0 : sc0.map (·.1) = p.cands := scoreFromRankings_keys p _ sc0 hsc
    have hI : ReInv p.cands (stvInitState p) (initialState p.cands (some sc0)) :=
      ⟨hN, fun x hx => hx, hk0, rfl⟩
    have h0 : ∀ x ∈ stateCands (initialState p.cands (some sc0)), x ∈ p.cands := by
      intro x hx
      simp only [stateCands, initialState, List.flatten_nil, List.append_nil, List.flatMap_nil, List.mem_append] at hx
      rcases hx with hx | hx
      · have := (scoreToRanking_perm sc0).subset hx; rw [hk0] at this; exact this
      · rw [hk0] at hx; exact hx
    cases hl : stvLoop cfg p (threshold cfg.quota cfg.m p.total) ω (p.cands.length + 2) (stvInitState p)
        (initialState p.cands (some sc0)) [(initialState p.cands (some sc0), stvInitState p)] with
    | ok tr =>
      simp only [hl, pure, Outcome.ok.injEq] at h
      subst h
      have := stvLoop_mentions cfg p _ ω hN _ _ _ hI _ tr
        (fun y hy => by simp only [List.mem_singleton] at hy; subst hy; exact h0) hl
      intro s hs
      simp only [STVResult.states, List.mem_map] at hs
      obtain ⟨y, hy, rfl⟩ := hs
      exact this y hy
    | raised e => simp [hl] at h
    | oracleMismatch => simp [hl] at h
    | outOfFuel => simp [hl] at h
  | raised e => simp [hsc, bind, Outcome.bind] at h
  | oracleMismatch => simp [hsc, bind, Outcome.bind] at h
  | outOfFuel => simp [hsc, bind, Outcome.bind] at h

theorem finalistStage_cands (p : Profile) (k : Nat) (tb : Option TB) (pri : List Cand)
    (x : RoundState × RoundState × Profile) (hfs : finalistStage p k tb pri = .ok x) :
    x.2.2.cands = p.cands.filter (fun c => !x.2.1.eliminated.flatten.contains c) := by
  unfold finalistStage at hfs
  cases h0 : firstPlaceVotes p with
  | ok sc0 =>
    rw [h0] at hfs
    simp only [Outcome.bind_ok] at hfs
    cases h1 : pluralityRun p k tb pri with
    | ok pl =>
      rw [h1] at hfs
      simp only [Outcome.bind_ok] at hfs
      match pl, hfs with
      | [s0, s1], hfs =>
        simp only [] at hfs
        cases h2 : firstPlaceVotes (removeCand s1.remaining.flatten p) with
        | ok sc1 =>
          rw [h2] at hfs
          simp only [Outcome.bind_ok, Outcome.pure_eq, Outcome.ok.injEq] at hfs
          subst hfs
          rfl
        | raised e => rw [h2] at hfs; simp at hfs
        | oracleMismatch => rw [h2] at hfs; simp at hfs
        | outOfFuel => rw [h2] at hfs; simp at hfs
    | raised e => rw [h1] at hfs; simp at hfs
    | oracleMismatch => rw [h1] at hfs; simp at hfs
    | outOfFuel => rw [h1] at hfs; simp at hfs
  | raised e => rw [h0] at hfs; simp at hfs
  | oracleMismatch => rw [h0] at hfs; simp at hfs
  | outOfFuel => rw [h0] at hfs; simp at hfs

/-- **C08 (order of listing, Alaska with the fractional or full-weight transfer).** -/
theorem C08_alaska_cand_order (p : Profile) (c' : List Cand) (hperm : c'.Perm p.cands) (hN : p.cands.Nodup)
    (m1 m2 : Int) (cfg : STVCfg) (hnr : cfg.transfer ≠ .random) (ω : STVOracle) (quotaOk : Bool) :
    alaskaRun (withCands p c') m1 m2 cfg ω quotaOk = (alaskaRun p m1 m2 cfg ω quotaOk).map (reStates c') := by
  unfold alaskaRun
  have h1 : rankingValid (withCands p c') = rankingValid p := rfl
  rw [h1]
  split
  · rfl
  · split
    · rfl
    · simp only []
      rw [finalistStage_re p c' hperm hN]
      cases hfs : finalistStage p m1.toNat cfg.tiebreak (ω.pri 1) with
      | ok x =>
        obtain ⟨st0, st1, p1⟩ := x
        simp only [Outcome.map_ok, Outcome.bind_ok, reStageC]
        have hp1 : p1.cands = p.cands.filter (fun c => !st1.eliminated.flatten.contains c) :=
          finalistStage_cands p _ _ _ _ hfs
        have hperm2 : (c'.filter (fun c => !st1.eliminated.flatten.contains c)).Perm p1.cands := by
          rw [hp1]; exact hperm.filter _
        have hN2 : p1.cands.Nodup := by rw [hp1]; exact hN.filter _
        have hnr' : ({ cfg with m := m2.toNat } : STVCfg).transfer ≠ .random := hnr
        rw [C08_stv_cand_order _ hnr' p1 _ hperm2 hN2]
        cases hst : stvRun { cfg with m := m2.toNat } p1
            { pri := fun r => ω.pri (r + 1), sample := fun r => ω.sample (r + 1) } quotaOk with
        | ok res =>
          simp only [Outcome.map_ok, Outcome.bind_ok, Outcome.pure_eq, reStates, List.map_cons]
          congr 3
          have hment := stvRun_mentions _ p1 _ quotaOk hN2 res hst
          simp only [STVResult.states, reResult, reTrace, List.map_map, List.map_drop, Function.comp_def]
          congr 1
          apply List.map_congr_left
          intro y hy
          have hy' : y.1 ∈ res.states := by
            simp only [STVResult.states, List.mem_map]; exact ⟨y, hy, rfl⟩
          have hs : ∀ x ∈ stateCands y.1, (fun c => !st1.eliminated.flatten.contains c) x = true := by
            intro x hx
            have := hment y.1 hy' x hx
            rw [hp1] at this
            exact (List.mem_filter.mp this).2
          rw [reRS_restrict c' _ y.1 hs]
          rfl
        | raised e => rfl
        | oracleMismatch => rfl
        | outOfFuel => rfl
      | raised e => rfl
      | oracleMismatch => rfl
      | outOfFuel => rfl

end VK
