/-
  Property C09 — the status table (`get_status_df`) agrees with the per-round records: a candidate's row shows the
  LAST round that lists it - as elected, as eliminated, or as still remaining - and nothing else touches the row.
-/
import VK.Model.Election
import Mathlib.Data.List.Basic
namespace VK

/-- what one recorded round does to the row of candidate `c` (the body of `statusUpdate`) -/
def rowUpd (c : Cand) (row : Status × Nat) (s : RoundState) (i : Nat) : Status × Nat :=
  let (stt, rd) := row
  let (stt, rd) := if s.elected.flatten.contains c then (Status.elected, i) else (stt, rd)
  let (stt, rd) := if s.eliminated.flatten.contains c then (Status.eliminated, i) else (stt, rd)
  let rd := if s.remaining.flatten.contains c then i else rd
  (stt, rd)

def rowLoop (c : Cand) (row : Status × Nat) : List RoundState → Nat → Status × Nat
  | [], _ => row
  | s :: rest, i => rowLoop c (rowUpd c row s i) rest (i + 1)

theorem statusUpdate_find (tbl : List (Cand × Status × Nat)) (s : RoundState) (i : Nat) (c : Cand) :
    (statusUpdate tbl s i).find? (fun row => row.1 = c) =
      (tbl.find? (fun row => row.1 = c)).map (fun row => (row.1, rowUpd row.1 row.2 s i)) := by
  unfold statusUpdate
  induction tbl with
  | nil => rfl
  | cons a rest ih =>
    obtain ⟨d, stt, rd⟩ := a
    simp only [List.map_cons, List.find?_cons]
    by_cases hd : d = c
    · simp [hd, rowUpd]
    · simp only [hd, decide_false]
      exact ih

/-- the rows of the table evolve independently, each by `rowLoop` -/
theorem statusLoop_find (tbl : List (Cand × Status × Nat)) (rounds : List RoundState) (i : Nat) (c : Cand) :
    (statusLoop tbl rounds i).find? (fun row => row.1 = c) =
      (tbl.find? (fun row => row.1 = c)).map (fun row => (row.1, rowLoop row.1 row.2 rounds i)) := by
  induction rounds generalizing tbl i with
  | nil => simp [statusLoop, rowLoop]
  | cons s rest ih =>
    simp only [statusLoop, rowLoop]
    rw [ih, statusUpdate_find]
    cases tbl.find? (fun row => row.1 = c) <;> rfl

theorem find_initial (cands : List Cand) (c : Cand) (hc : c ∈ cands) :
    (cands.map (fun c => ((c, Status.remaining, 0) : Cand × Status × Nat))).find? (fun row => row.1 = c) =
      some (c, Status.remaining, 0) := by
  induction cands with
  | nil => cases hc
  | cons a rest ih =>
    simp only [List.map_cons, List.find?_cons]
    by_cases ha : a = c
    · simp [ha]
    · simp only [ha, decide_false]
      rcases List.mem_cons.mp hc with h | h
      · exact absurd h.symm ha
      · exact ih h

/-- a round that does not list the candidate at all -/
def Untouched (c : Cand) (s : RoundState) : Prop :=
  c ∉ s.elected.flatten ∧ c ∉ s.eliminated.flatten ∧ c ∉ s.remaining.flatten

theorem rowUpd_untouched (c : Cand) (row : Status × Nat) (s : RoundState) (i : Nat) (h : Untouched c s) :
    rowUpd c row s i = row := by
  obtain ⟨h1, h2, h3⟩ := h
  simp [rowUpd, h1, h2, h3]

theorem rowLoop_untouched (c : Cand) (row : Status × Nat) (rounds : List RoundState) (i : Nat)
    (h : ∀ s ∈ rounds, Untouched c s) : rowLoop c row rounds i = row := by
  induction rounds generalizing row i with
  | nil => rfl
  | cons s rest ih =>
    simp only [rowLoop]
    rw [rowUpd_untouched c row s i (h s List.mem_cons_self)]
    exact ih row (i + 1) (fun x hx => h x (List.mem_cons_of_mem _ hx))

theorem rowLoop_append (c : Cand) (row : Status × Nat) (pre post : List RoundState) (i : Nat) :
    rowLoop c row (pre ++ post) i = rowLoop c (rowLoop c row pre i) post (i + pre.length) := by
  induction pre generalizing row i with
  | nil => rfl
  | cons s rest ih =>
    simp only [List.cons_append, rowLoop, List.length_cons]
    rw [ih]
    congr 1
    omega

/-- **C09 (status table, elected).** If round `pre.length + 1` is the last round that lists `c` and lists it as
elected (not also as eliminated or remaining), the row of `c` reads (elected, that round). -/
theorem C09_status_elected (cands : List Cand) (c : Cand) (hc : c ∈ cands) (pre post : List RoundState)
    (s : RoundState) (he : c ∈ s.elected.flatten) (hl : c ∉ s.eliminated.flatten) (hr : c ∉ s.remaining.flatten)
    (hpost : ∀ x ∈ post, Untouched c x) :
    (statusLoop (cands.map (fun c => (c, Status.remaining, 0))) (pre ++ s :: post) 1).find? (fun row => row.1 = c) =
      some (c, Status.elected, pre.length + 1) := by
  rw [statusLoop_find, find_initial cands c hc]
  simp only [Option.map_some]
  rw [rowLoop_append]
  simp only [rowLoop]
  rw [rowLoop_untouched c _ post _ hpost]
  simp [rowUpd, he, hl, hr, Nat.add_comm]

/-- **C09 (status table, eliminated).** -/
theorem C09_status_eliminated (cands : List Cand) (c : Cand) (hc : c ∈ cands) (pre post : List RoundState)
    (s : RoundState) (hl : c ∈ s.eliminated.flatten) (hr : c ∉ s.remaining.flatten)
    (hpost : ∀ x ∈ post, Untouched c x) :
    (statusLoop (cands.map (fun c => (c, Status.remaining, 0))) (pre ++ s :: post) 1).find? (fun row => row.1 = c) =
      some (c, Status.eliminated, pre.length + 1) := by
  rw [statusLoop_find, find_initial cands c hc]
  simp only [Option.map_some]
  rw [rowLoop_append]
  simp only [rowLoop]
  rw [rowLoop_untouched c _ post _ hpost]
  simp [rowUpd, hl, hr, Nat.add_comm]

/-- **C09 (status table, remaining).** A candidate that no round up to the queried one elects or eliminates and
that round `pre.length + 1` is the last to list as remaining has the row (remaining, that round); a candidate no
round lists at all keeps (remaining, 0). -/
theorem C09_status_remaining (cands : List Cand) (c : Cand) (hc : c ∈ cands) (pre post : List RoundState)
    (s : RoundState) (hr : c ∈ s.remaining.flatten)
    (hne : ∀ x ∈ pre ++ s :: post, c ∉ x.elected.flatten ∧ c ∉ x.eliminated.flatten)
    (hpost : ∀ x ∈ post, c ∉ x.remaining.flatten) :
    (statusLoop (cands.map (fun c => (c, Status.remaining, 0))) (pre ++ s :: post) 1).find? (fun row => row.1 = c) =
      some (c, Status.remaining, pre.length + 1) := by
  rw [statusLoop_find, find_initial cands c hc]
  simp only [Option.map_some]
  rw [rowLoop_append]
  simp only [rowLoop]
  rw [rowLoop_untouched c _ post _ (fun x hx =>
    ⟨(hne x (by simp [hx])).1, (hne x (by simp [hx])).2, hpost x hx⟩)]
  have hs := hne s (by simp)
  -- the status never leaves `remaining` before this round
  have hstat : ∀ (l : List RoundState) (row : Status × Nat) (i : Nat),
      (∀ x ∈ l, c ∉ x.elected.flatten ∧ c ∉ x.eliminated.flatten) → (rowLoop c row l i).1 = row.1 := by
    intro l
    induction l with
    | nil => intro row i _; rfl
    | cons a rest ih =>
      intro row i h
      simp only [rowLoop]
      rw [ih _ _ (fun x hx => h x (List.mem_cons_of_mem _ hx))]
      have ha := h a List.mem_cons_self
      simp [rowUpd, ha.1, ha.2]
  have h1 := hstat pre (Status.remaining, 0) 1 (fun x hx => hne x (by simp [hx]))
  have : rowUpd c (rowLoop c (Status.remaining, 0) pre 1) s (1 + pre.length) = (Status.remaining, pre.length + 1) := by
    simp only [rowUpd, hs.1, hs.2, hr, List.contains_iff_mem]
    simp [h1, Nat.add_comm]
  rw [this]

theorem C09_status_never_listed (cands : List Cand) (c : Cand) (hc : c ∈ cands) (rounds : List RoundState)
    (h : ∀ x ∈ rounds, Untouched c x) :
    (statusLoop (cands.map (fun c => (c, Status.remaining, 0))) rounds 1).find? (fun row => row.1 = c) =
      some (c, Status.remaining, 0) := by
  rw [statusLoop_find, find_initial cands c hc]
  simp only [Option.map_some]
  rw [rowLoop_untouched c _ rounds _ h]

/-- non-vacuity: three candidates, one elected in round 1, one eliminated in round 2, one left -/
example :
    (statusLoop ([0, 1, 2].map (fun c => (c, Status.remaining, 0)))
      [{ round := 1, elected := [[0]], remaining := [[1], [2]] },
       { round := 2, eliminated := [[2]], remaining := [[1]] }] 1) =
    [(0, Status.elected, 1), (1, Status.remaining, 2), (2, Status.eliminated, 2)] := by decide +kernel

end VK
