/-
  Property C09 — the profile of every round for the single-round rules (Plurality, SNTV, Borda, the score-ballot
  classes): the profile reported for round 1 has exactly the candidates still remaining after round 1 and re-scoring
  it reproduces the tallies recorded for that round; likewise round 0 and the initial profile.
-/
import VK.Model.Replay
import VK.Lemmas.Elect
import VK.Lemmas.STVRun
namespace VK

theorem perm_filter_of_append (all a b : List Cand) (hn : all.Nodup) (hp : (a ++ b).Perm all) :
    b.Perm (all.filter (fun c => !a.contains c)) := by
  have hnab : (a ++ b).Nodup := hp.nodup_iff.mpr hn
  have hb : b.Nodup := (List.nodup_append.mp hnab).2.1
  apply (List.perm_ext_iff_of_nodup hb (hn.filter _)).mpr
  intro x
  have hdisj : x ∈ b → x ∉ a := fun hxb hxa => (List.nodup_append.mp hnab).2.2 x hxa x hxb rfl
  simp only [List.mem_filter, Bool.not_eq_true', List.contains_eq_mem, decide_eq_false_iff_not]
  constructor
  · intro hx
    exact ⟨hp.subset (List.mem_append_right _ hx), hdisj hx⟩
  · rintro ⟨hxall, hxa⟩
    rcases List.mem_append.mp (hp.symm.subset hxall) with h | h
    · exact absurd h hxa
    · exact h

/-- **C09 (single-round rules).** -/
theorem C09_topM_round_profiles (p : Profile) (m : Nat) (tb : Option TB) (pri : List Cand)
    (score : Profile → Outcome (List (Cand × Rat)))
    (hkeys : ∀ q sc, score q = .ok sc → sc.map (·.1) = q.cands) (hN : p.cands.Nodup)
    (st : States) (h : topMRun p m tb pri score = .ok st) :
    ∃ s0 s1, st = [s0, s1] ∧
      singleRoundProfiles p st = [p, removeCand s1.elected.flatten p] ∧
      score p = .ok s0.scores ∧ s0.remaining.flatten.Perm p.cands ∧
      score (removeCand s1.elected.flatten p) = .ok s1.scores ∧
      s1.remaining.flatten.Perm (removeCand s1.elected.flatten p).cands := by
  unfold topMRun at h
  cases hsc0 : score p with
  | ok sc0 =>
    rw [hsc0] at h
    simp only [Outcome.bind_ok] at h
    have hk0 : sc0.map (·.1) = p.cands := hkeys p sc0 hsc0
    have hrem0 : (initialState p.cands (some sc0)).remaining = scoreToRanking sc0 := rfl
    rw [hrem0] at h
    cases hel : electFromRanking pri (scoreToRanking sc0) m (some p) tb with
    | ok r =>
      rw [hel] at h
      simp only [Outcome.bind_ok] at h
      cases hsc1 : score (removeCand r.elected.flatten p) with
      | ok sc1 =>
        rw [hsc1] at h
        simp only [Outcome.bind_ok, Outcome.pure_eq, Outcome.ok.injEq] at h
        subst h
        have hperm0 : (scoreToRanking sc0).flatten.Perm p.cands := by
          rw [← hk0]; exact scoreToRanking_perm sc0
        have hnd : ∀ g ∈ scoreToRanking sc0, g.Nodup :=
          scoreToRanking_groups_nodup sc0 (by rw [hk0]; exact hN)
        have hcount := electFromRanking_count pri (scoreToRanking sc0) m (some p) tb r hnd
          (fun q hq => by
            injection hq with hq; subst hq
            exact ⟨hN, fun g hg c hc => hperm0.subset (List.mem_flatten.mpr ⟨g, hg, hc⟩)⟩) hel
        refine ⟨_, _, rfl, rfl, rfl, hperm0, hsc1, ?_⟩
        exact perm_filter_of_append p.cands r.elected.flatten r.remaining.flatten hN (hcount.2.trans hperm0)
      | raised e => rw [hsc1] at h; simp at h
      | oracleMismatch => rw [hsc1] at h; simp at h
      | outOfFuel => rw [hsc1] at h; simp at h
    | raised e => rw [hel] at h; simp at h
    | oracleMismatch => rw [hel] at h; simp at h
    | outOfFuel => rw [hel] at h; simp at h
  | raised e => rw [hsc0] at h; simp at h
  | oracleMismatch => rw [hsc0] at h; simp at h
  | outOfFuel => rw [hsc0] at h; simp at h

/-- Plurality / SNTV -/
theorem C09_plurality_round_profiles (p : Profile) (m : Nat) (tb : Option TB) (pri : List Cand) (hN : p.cands.Nodup)
    (st : States) (h : pluralityRun p m tb pri = .ok st) :
    ∃ s0 s1, st = [s0, s1] ∧ singleRoundProfiles p st = [p, removeCand s1.elected.flatten p] ∧
      firstPlaceVotes p = .ok s0.scores ∧ s0.remaining.flatten.Perm p.cands ∧
      firstPlaceVotes (removeCand s1.elected.flatten p) = .ok s1.scores ∧
      s1.remaining.flatten.Perm (removeCand s1.elected.flatten p).cands := by
  unfold pluralityRun at h
  split at h
  · cases h
  · exact C09_topM_round_profiles p m tb pri firstPlaceVotes
      (fun q sc hq => scoreFromRankings_keys q _ sc hq) hN st h

end VK
