/-
  C19, the recursion of `BallotGraph.build_graph`: for EVERY number of candidates the recursively built
  graph (Model/BallotGraphRec.lean — n relabelled copies of the graph on n-1, the bullet votes, the
  swaps of the first two entries) is the specified ballot graph: its nodes are exactly the rankings of
  length 1..n except n-1, and two nodes are joined exactly when they are adjacent (one swap of
  neighbouring entries, or one ranking extends the other by its last entry, lengths n-2 and n counting
  as neighbours).
-/
import VK.Model.BallotGraphRec
import VK.Props.C19

namespace VK

/-! ### the relabelling arithmetic -/

/-- inverse of `shift i n` on the candidates other than `i` -/
def unshift (i n y : Nat) : Nat := if y > i then y - i else y + n - i

theorem shift_range (i n y : Nat) (hi : 1 ≤ i ∧ i ≤ n) (hy : 1 ≤ y ∧ y + 1 ≤ n) :
    1 ≤ shift i n y ∧ shift i n y ≤ n ∧ shift i n y ≠ i := by
  unfold shift; split <;> omega

theorem shift_inj (i n y z : Nat) (hi : 1 ≤ i ∧ i ≤ n) (hy : 1 ≤ y ∧ y + 1 ≤ n) (hz : 1 ≤ z ∧ z + 1 ≤ n)
    (h : shift i n y = shift i n z) : y = z := by
  unfold shift at h; split at h <;> split at h <;> omega

theorem unshift_range (i n y : Nat) (hi : 1 ≤ i ∧ i ≤ n) (hy : 1 ≤ y ∧ y ≤ n) (hne : y ≠ i) :
    1 ≤ unshift i n y ∧ unshift i n y + 1 ≤ n := by
  unfold unshift; split <;> omega

theorem shift_unshift (i n y : Nat) (hi : 1 ≤ i ∧ i ≤ n) (hy : 1 ≤ y ∧ y ≤ n) (hne : y ≠ i) :
    shift i n (unshift i n y) = y := by
  unfold shift unshift; split <;> split <;> omega

/-- entries between 1 and `m` -/
def InRange (m : Nat) (l : List Nat) : Prop := ∀ x ∈ l, 1 ≤ x ∧ x ≤ m

/-- the characterisation of `specNodes` (C19_nodes) as a predicate -/
def IsNode (n : Nat) (l : List Nat) : Prop :=
  l.Nodup ∧ InRange n l ∧ 1 ≤ l.length ∧ l.length ≤ n ∧ l.length + 1 ≠ n

theorem isNode_iff (n : Nat) (l : List Nat) : l ∈ specNodes n ↔ IsNode n l := C19_nodes n l

theorem map_shift_inj (i n : Nat) (hi : 1 ≤ i ∧ i ≤ n) (k l : List Nat)
    (hk : ∀ x ∈ k, 1 ≤ x ∧ x + 1 ≤ n) (hl : ∀ x ∈ l, 1 ≤ x ∧ x + 1 ≤ n)
    (h : k.map (shift i n) = l.map (shift i n)) : k = l := by
  induction k generalizing l with
  | nil => cases l with
    | nil => rfl
    | cons _ _ => simp at h
  | cons x xs ih =>
    cases l with
    | nil => simp at h
    | cons y ys =>
      simp only [List.map_cons, List.cons.injEq] at h
      have hxy := shift_inj i n x y hi (hk x (by simp)) (hl y (by simp)) h.1
      rw [hxy, ih ys (fun z hz => hk z (by simp [hz])) (fun z hz => hl z (by simp [hz])) h.2]

/-- a node of the graph on `n - 1` candidates, relabelled behind a first choice `i`, is a node of the
graph on `n` candidates -/
theorem relabel_isNode (i n : Nat) (hn : 3 ≤ n) (hi : 1 ≤ i ∧ i ≤ n) (k : List Nat) (hk : IsNode (n - 1) k) :
    IsNode n (relabel i n k) := by
  obtain ⟨hnd, hr, h1, h2, h3⟩ := hk
  have hr' : ∀ x ∈ k, 1 ≤ x ∧ x + 1 ≤ n := fun x hx => by have := hr x hx; omega
  unfold relabel
  refine ⟨?_, ?_, ?_, ?_, ?_⟩
  · rw [List.nodup_cons]
    constructor
    · intro hmem
      obtain ⟨y, hy, hye⟩ := List.mem_map.1 hmem
      exact (shift_range i n y hi (hr' y hy)).2.2 hye
    · exact List.Nodup.map_on (fun x hx y hy hxy => shift_inj i n x y hi (hr' x hx) (hr' y hy) hxy) hnd
  · intro x hx
    rcases List.mem_cons.1 hx with e | e
    · rw [e]; exact hi
    · obtain ⟨y, hy, rfl⟩ := List.mem_map.1 e
      have := shift_range i n y hi (hr' y hy)
      exact ⟨this.1, this.2.1⟩
  · simp
  · simp only [List.length_cons, List.length_map]; omega
  · simp only [List.length_cons, List.length_map]; omega

/-- every node of length at least two is such a relabelled node -/
theorem isNode_relabel (n : Nat) (hn : 3 ≤ n) (i : Nat) (t : List Nat) (ht : t ≠ []) (hu : IsNode n (i :: t)) :
    (1 ≤ i ∧ i ≤ n) ∧ ∃ k, IsNode (n - 1) k ∧ relabel i n k = i :: t ∧ k.length = t.length := by
  obtain ⟨hnd, hr, h1, h2, h3⟩ := hu
  have hi : 1 ≤ i ∧ i ≤ n := hr i (by simp)
  rw [List.nodup_cons] at hnd
  have htr : ∀ y ∈ t, (1 ≤ y ∧ y ≤ n) ∧ y ≠ i := fun y hy =>
    ⟨hr y (by simp [hy]), fun e => hnd.1 (e ▸ hy)⟩
  have hback : (t.map (unshift i n)).map (shift i n) = t := by
    rw [List.map_map]
    conv_rhs => rw [← List.map_id t]
    apply List.map_congr_left
    intro y hy
    exact shift_unshift i n y hi (htr y hy).1 (htr y hy).2
  refine ⟨hi, t.map (unshift i n), ⟨?_, ?_, ?_, ?_, ?_⟩, ?_, by simp⟩
  · -- a left inverse makes the map injective
    refine List.Nodup.map_on ?_ hnd.2
    intro x hx y hy hxy
    have := congrArg (shift i n) hxy
    rwa [shift_unshift i n x hi (htr x hx).1 (htr x hx).2, shift_unshift i n y hi (htr y hy).1 (htr y hy).2] at this
  · intro x hx
    obtain ⟨y, hy, rfl⟩ := List.mem_map.1 hx
    have := unshift_range i n y hi (htr y hy).1 (htr y hy).2
    omega
  · simp only [List.length_map]
    cases t with
    | nil => exact absurd rfl ht
    | cons _ _ => simp
  · simp only [List.length_map, List.length_cons] at h2 ⊢; omega
  · simp only [List.length_map, List.length_cons] at h3 ⊢; omega
  · unfold relabel; rw [hback]

/-! ### adjacency as a proposition -/

/-- `v` is `u` with two neighbouring entries exchanged -/
def SwapP (u v : List Nat) : Prop := u.length = v.length ∧ u ≠ v ∧ ∃ p, p < u.length - 1 ∧ swapAt u p = v
/-- `v` extends `u` by one entry -/
def ExtP (u v : List Nat) : Prop := u.length + 1 = v.length ∧ v.take u.length = u
/-- `v` is a complete ranking extending `u` of length `n - 2` -/
def Ext2P (n : Nat) (u v : List Nat) : Prop := u.length + 2 = n ∧ v.length = n ∧ v.take u.length = u

theorem adj_iff (n : Nat) (u v : List Nat) :
    adj n u v = true ↔ SwapP u v ∨ ExtP u v ∨ ExtP v u ∨ Ext2P n u v ∨ Ext2P n v u := by
  unfold adj isAdjSwap isPrefix SwapP ExtP Ext2P
  simp only [Bool.or_eq_true, Bool.and_eq_true, decide_eq_true_eq, bne_iff_ne, ne_eq, List.any_eq_true,
    List.mem_range, beq_iff_eq, and_assoc, or_assoc]

theorem swapAt_cons_succ (a : Nat) (t : List Nat) (p : Nat) : swapAt (a :: t) (p + 1) = a :: swapAt t p := by
  cases t with
  | nil => simp [swapAt]
  | cons b rest => simp [swapAt]

theorem swapAt_map (f : Nat → Nat) (k : List Nat) (p : Nat) : swapAt (k.map f) p = (swapAt k p).map f := by
  induction k generalizing p with
  | nil => cases p <;> simp [swapAt]
  | cons a rest ih =>
    cases p with
    | zero =>
      cases rest with
      | nil => simp [swapAt]
      | cons b r => simp [swapAt]
    | succ p =>
      rw [List.map_cons, swapAt_cons_succ, swapAt_cons_succ, ih, List.map_cons]

theorem swapAt_zero (u : List Nat) : swapAt u 0 = swap01 u := by
  cases u with
  | nil => rfl
  | cons a rest =>
    cases rest with
    | nil => rfl
    | cons b r => rfl

/-! ### what the recursion adds -/

theorem mem_parts (prev : RecGraph) (N : Nat) (x : List (List Nat) × List (List Nat × List Nat)) :
    x ∈ ((List.range N).map (· + 1)).map (cornerOf prev N) ↔ ∃ i, (1 ≤ i ∧ i ≤ N) ∧ x = cornerOf prev N i := by
  rw [List.mem_map]
  constructor
  · rintro ⟨i, hi, rfl⟩; exact ⟨i, (mem_cands1n _ _).1 hi, rfl⟩
  · rintro ⟨i, hi, rfl⟩; exact ⟨i, (mem_cands1n _ _).2 hi, rfl⟩

theorem build_nodes_eq (n : Nat) : (buildGraph (n + 3)).nodes =
    (((List.range (n + 3)).map (· + 1)).map (cornerOf (buildGraph (n + 2)) (n + 3))).flatMap (·.1) := by
  simp only [buildGraph]

theorem build_edges_eq (n : Nat) : (buildGraph (n + 3)).edges =
    (((List.range (n + 3)).map (· + 1)).map (cornerOf (buildGraph (n + 2)) (n + 3))).flatMap (·.2) ++
    ((buildGraph (n + 3)).nodes.filter (fun b => b.length ≥ 2)).map (fun b => (b, swap01 b)) := by
  simp only [buildGraph]

theorem mem_build_nodes (n : Nat) (u : List Nat) :
    u ∈ (buildGraph (n + 3)).nodes ↔
      ∃ i, (1 ≤ i ∧ i ≤ n + 3) ∧ (u = [i] ∨ ∃ k ∈ (buildGraph (n + 2)).nodes, u = relabel i (n + 3) k) := by
  rw [build_nodes_eq, List.mem_flatMap]
  constructor
  · rintro ⟨x, hx, hu⟩
    obtain ⟨i, hi, rfl⟩ := (mem_parts _ _ x).1 hx
    refine ⟨i, hi, ?_⟩
    simp only [cornerOf, List.mem_cons, List.mem_map] at hu
    rcases hu with h | ⟨k, hk, rfl⟩
    · exact Or.inl h
    · exact Or.inr ⟨k, hk, rfl⟩
  · rintro ⟨i, hi, hu⟩
    refine ⟨cornerOf (buildGraph (n + 2)) (n + 3) i, (mem_parts _ _ _).2 ⟨i, hi, rfl⟩, ?_⟩
    simp only [cornerOf, List.mem_cons, List.mem_map]
    rcases hu with h | ⟨k, hk, rfl⟩
    · exact Or.inl h
    · exact Or.inr ⟨k, hk, rfl⟩

theorem mem_build_edges (n : Nat) (u v : List Nat) :
    (u, v) ∈ (buildGraph (n + 3)).edges ↔
      (∃ i, (1 ≤ i ∧ i ≤ n + 3) ∧
        ((∃ e ∈ (buildGraph (n + 2)).edges, u = relabel i (n + 3) e.1 ∧ v = relabel i (n + 3) e.2) ∨
         (∃ k ∈ (buildGraph (n + 2)).nodes, (n = 0 ∨ (relabel i (n + 3) k).length = 2) ∧
            u = relabel i (n + 3) k ∧ v = [i]))) ∨
      (u ∈ (buildGraph (n + 3)).nodes ∧ 2 ≤ u.length ∧ v = swap01 u) := by
  rw [build_edges_eq, List.mem_append]
  apply or_congr
  · rw [List.mem_flatMap]
    constructor
    · rintro ⟨x, hx, huv⟩
      obtain ⟨i, hi, rfl⟩ := (mem_parts _ _ x).1 hx
      refine ⟨i, hi, ?_⟩
      simp only [cornerOf, List.mem_append, List.mem_map, Prod.mk.injEq] at huv
      rcases huv with ⟨e, he, h1, h2⟩ | ⟨k, hk, h1, h2⟩
      · exact Or.inl ⟨e, he, h1.symm, h2.symm⟩
      · right
        split at hk
        · obtain ⟨k0, hk0, rfl⟩ := List.mem_map.1 hk
          exact ⟨k0, hk0, Or.inl (by omega), h1.symm, h2.symm⟩
        · obtain ⟨hk1, hk2⟩ := List.mem_filter.1 hk
          obtain ⟨k0, hk0, rfl⟩ := List.mem_map.1 hk1
          exact ⟨k0, hk0, Or.inr (by simpa using hk2), h1.symm, h2.symm⟩
    · rintro ⟨i, hi, h⟩
      refine ⟨cornerOf (buildGraph (n + 2)) (n + 3) i, (mem_parts _ _ _).2 ⟨i, hi, rfl⟩, ?_⟩
      simp only [cornerOf, List.mem_append, List.mem_map, Prod.mk.injEq]
      rcases h with ⟨e, he, h1, h2⟩ | ⟨k, hk, hc, h1, h2⟩
      · exact Or.inl ⟨e, he, h1.symm, h2.symm⟩
      · right
        refine ⟨relabel i (n + 3) k, ?_, h1.symm, h2.symm⟩
        split
        · exact List.mem_map.2 ⟨k, hk, rfl⟩
        · rcases hc with h0 | h0
          · omega
          · exact List.mem_filter.2 ⟨List.mem_map.2 ⟨k, hk, rfl⟩, by simpa using h0⟩
  · simp only [List.mem_map, List.mem_filter, Prod.mk.injEq, decide_eq_true_eq, ge_iff_le]
    constructor
    · rintro ⟨b, ⟨hb, hl⟩, rfl, rfl⟩; exact ⟨hb, hl, rfl⟩
    · rintro ⟨hb, hl, rfl⟩; exact ⟨u, ⟨hb, hl⟩, rfl, rfl⟩

/-! ### the nodes -/

theorem specNodes_one : specNodes 1 = [[1]] := by decide
theorem specNodes_two : specNodes 2 = [[1, 2], [2, 1]] := by decide

/-- **The recursion builds exactly the specified nodes**, for every number of candidates. -/
theorem C19_rec_nodes (n : Nat) (hn : 1 ≤ n) (u : List Nat) :
    u ∈ (buildGraph n).nodes ↔ u ∈ specNodes n := by
  match n, hn with
  | 1, _ => rw [specNodes_one]; rfl
  | 2, _ => rw [specNodes_two]; rfl
  | n + 3, _ =>
    have ih : ∀ k, k ∈ (buildGraph (n + 2)).nodes ↔ k ∈ specNodes (n + 2) :=
      fun k => C19_rec_nodes (n + 2) (by omega) k
    rw [mem_build_nodes, isNode_iff]
    constructor
    · rintro ⟨i, hi, h | ⟨k, hk, rfl⟩⟩
      · subst h
        refine ⟨by simp, ?_, by simp, by simp, by simp⟩
        intro x hx
        simp only [List.mem_singleton] at hx
        subst hx; exact hi
      · have hk' : IsNode (n + 3 - 1) k := (isNode_iff _ _).1 ((ih k).1 hk)
        exact relabel_isNode i (n + 3) (by omega) hi k hk'
    · intro hu
      cases u with
      | nil => exact absurd hu.2.2.1 (by simp)
      | cons i t =>
        by_cases ht : t = []
        · subst ht
          exact ⟨i, hu.2.1 i (by simp), Or.inl rfl⟩
        · obtain ⟨hi, k, hk, hrel, _⟩ := isNode_relabel (n + 3) (by omega) i t ht hu
          exact ⟨i, hi, Or.inr ⟨k, (ih k).2 ((isNode_iff _ _).2 hk), hrel.symm⟩⟩

/-! ### the edges -/

/-- `u` and `v` are joined in the recursively built graph (edges are unordered) -/
def REdge (g : RecGraph) (u v : List Nat) : Prop := (u, v) ∈ g.edges ∨ (v, u) ∈ g.edges

theorem REdge_symm (g : RecGraph) (u v : List Nat) : REdge g u v ↔ REdge g v u := Or.comm

theorem swapAt_perm (u : List Nat) (p : Nat) : (swapAt u p).Perm u := by
  induction u generalizing p with
  | nil => cases p <;> simp [swapAt]
  | cons a rest ih =>
    cases p with
    | zero =>
      cases rest with
      | nil => simp [swapAt]
      | cons b r => simp only [swapAt]; exact List.Perm.swap a b r
    | succ p => rw [swapAt_cons_succ]; exact (ih p).cons a

theorem isNode_perm (n : Nat) (u v : List Nat) (h : v.Perm u) (hu : IsNode n u) : IsNode n v := by
  obtain ⟨h1, h2, h3, h4, h5⟩ := hu
  refine ⟨h.nodup_iff.2 h1, fun x hx => h2 x (h.mem_iff.1 hx), ?_, ?_, ?_⟩ <;> rw [h.length_eq] <;> assumption

/-- relabelling behind the same first choice keeps adjacency -/
theorem relabel_adj (i n : Nat) (hi : 1 ≤ i ∧ i ≤ n) (k l : List Nat)
    (hk : ∀ x ∈ k, 1 ≤ x ∧ x + 1 ≤ n) (hl : ∀ x ∈ l, 1 ≤ x ∧ x + 1 ≤ n)
    (h : adj (n - 1) k l = true) (hn : 3 ≤ n) : adj n (relabel i n k) (relabel i n l) = true := by
  have key : ∀ k l : List Nat, (∀ x ∈ k, 1 ≤ x ∧ x + 1 ≤ n) → (∀ x ∈ l, 1 ≤ x ∧ x + 1 ≤ n) →
      (SwapP k l → SwapP (relabel i n k) (relabel i n l)) ∧
      (ExtP k l → ExtP (relabel i n k) (relabel i n l)) ∧
      (Ext2P (n - 1) k l → Ext2P n (relabel i n k) (relabel i n l)) := by
    intro k l hk hl
    refine ⟨?_, ?_, ?_⟩
    · rintro ⟨hlen, hne, p, hp, hsw⟩
      refine ⟨by simp [relabel, hlen], ?_, p + 1, ?_, ?_⟩
      · intro e
        simp only [relabel, List.cons.injEq, true_and] at e
        exact hne (map_shift_inj i n hi k l hk hl e)
      · simp only [relabel, List.length_cons, List.length_map]; omega
      · simp only [relabel]
        rw [swapAt_cons_succ, swapAt_map, hsw]
    · rintro ⟨hlen, htake⟩
      refine ⟨by simp [relabel, hlen], ?_⟩
      simp only [relabel, List.length_cons, List.length_map, List.take_succ_cons]
      rw [← List.map_take, htake]
    · rintro ⟨h1, h2, htake⟩
      refine ⟨by simp only [relabel, List.length_cons, List.length_map]; omega,
              by simp only [relabel, List.length_cons, List.length_map]; omega, ?_⟩
      simp only [relabel, List.length_cons, List.length_map, List.take_succ_cons]
      rw [← List.map_take, htake]
  rw [adj_iff] at h ⊢
  obtain ⟨a1, a2, a3⟩ := key k l hk hl
  obtain ⟨b1, b2, b3⟩ := key l k hl hk
  rcases h with h | h | h | h | h
  · exact Or.inl (a1 h)
  · exact Or.inr (Or.inl (a2 h))
  · exact Or.inr (Or.inr (Or.inl (b2 h)))
  · exact Or.inr (Or.inr (Or.inr (Or.inl (a3 h))))
  · exact Or.inr (Or.inr (Or.inr (Or.inr (b3 h))))

theorem isNode_range' (n : Nat) (k : List Nat) (hk : IsNode (n + 2) k) : ∀ x ∈ k, 1 ≤ x ∧ x + 1 ≤ n + 3 := by
  intro x hx
  have := hk.2.1 x hx
  omega

/-- every edge the recursion adds joins two specified nodes that are adjacent -/
theorem build_edges_sound (n : Nat)
    (ihn : ∀ k, k ∈ (buildGraph (n + 2)).nodes ↔ k ∈ specNodes (n + 2))
    (ihe : ∀ k l, REdge (buildGraph (n + 2)) k l ↔
      k ∈ specNodes (n + 2) ∧ l ∈ specNodes (n + 2) ∧ adj (n + 2) k l = true)
    (u v : List Nat) (h : (u, v) ∈ (buildGraph (n + 3)).edges) :
    IsNode (n + 3) u ∧ IsNode (n + 3) v ∧ adj (n + 3) u v = true := by
  rcases (mem_build_edges n u v).1 h with ⟨i, hi, hA | hB⟩ | ⟨hu, hlen, rfl⟩
  · -- a relabelled edge of the smaller graph
    obtain ⟨e, he, rfl, rfl⟩ := hA
    obtain ⟨h1, h2, h3⟩ := (ihe e.1 e.2).1 (Or.inl he)
    have n1 : IsNode (n + 2) e.1 := (isNode_iff _ _).1 h1
    have n2 : IsNode (n + 2) e.2 := (isNode_iff _ _).1 h2
    refine ⟨relabel_isNode i (n + 3) (by omega) hi _ n1, relabel_isNode i (n + 3) (by omega) hi _ n2, ?_⟩
    exact relabel_adj i (n + 3) hi _ _ (isNode_range' n _ n1) (isNode_range' n _ n2) h3 (by omega)
  · -- a bullet vote joined to the shortest (or, for three candidates, the complete) rankings behind it
    obtain ⟨k, hk, hc, rfl, rfl⟩ := hB
    have nk : IsNode (n + 2) k := (isNode_iff _ _).1 ((ihn k).1 hk)
    have nu := relabel_isNode i (n + 3) (by omega) hi k nk
    have nv : IsNode (n + 3) [i] := by
      refine ⟨by simp, ?_, by simp, by simp, by simp⟩
      intro x hx
      simp only [List.mem_singleton] at hx
      subst hx; exact hi
    refine ⟨nu, nv, ?_⟩
    rw [adj_iff]
    rcases hc with h0 | h2
    · -- three candidates: the relabelled node is a complete ranking
      subst h0
      obtain ⟨_, _, k1, k2, k3⟩ := nk
      have hkl : k.length = 2 := by omega
      right; right; right; right
      exact ⟨by simp, by simp [relabel, hkl], by simp [relabel]⟩
    · right; right; left
      exact ⟨by simp [h2], by simp [relabel]⟩
  · -- exchanging the first two entries
    have nu : IsNode (n + 3) u := (isNode_iff _ _).1 ((C19_rec_nodes (n + 3) (by omega) u).1 hu)
    have hperm : (swap01 u).Perm u := by rw [← swapAt_zero]; exact swapAt_perm u 0
    refine ⟨nu, isNode_perm _ _ _ hperm nu, ?_⟩
    rw [adj_iff]
    left
    refine ⟨by rw [← swapAt_zero, swapAt_length], ?_, 0, by omega, swapAt_zero u⟩
    match u, hlen, nu with
    | a :: b :: rest, _, nu =>
      intro e
      simp only [swap01, List.cons.injEq] at e
      have hnd := nu.1
      rw [List.nodup_cons] at hnd
      exact hnd.1 (by simp [e.1])

/-- adjacent nodes of the smaller graph stay joined behind a common first choice -/
theorem corner_edge (n : Nat)
    (ihe : ∀ k l, REdge (buildGraph (n + 2)) k l ↔
      k ∈ specNodes (n + 2) ∧ l ∈ specNodes (n + 2) ∧ adj (n + 2) k l = true)
    (i : Nat) (hi : 1 ≤ i ∧ i ≤ n + 3) (k l : List Nat) (nk : IsNode (n + 2) k) (nl : IsNode (n + 2) l)
    (h : adj (n + 2) k l = true) :
    REdge (buildGraph (n + 3)) (relabel i (n + 3) k) (relabel i (n + 3) l) := by
  rcases (ihe k l).2 ⟨(isNode_iff _ _).2 nk, (isNode_iff _ _).2 nl, h⟩ with he | he
  · exact Or.inl ((mem_build_edges n _ _).2 (Or.inl ⟨i, hi, Or.inl ⟨(k, l), he, rfl, rfl⟩⟩))
  · exact Or.inr ((mem_build_edges n _ _).2 (Or.inl ⟨i, hi, Or.inl ⟨(l, k), he, rfl, rfl⟩⟩))

/-- the tails of two nodes with the same first choice, pulled back to the smaller graph -/
theorem pull_back (n i : Nat) (t : List Nat) (ht : t ≠ []) (hu : IsNode (n + 3) (i :: t)) :
    (1 ≤ i ∧ i ≤ n + 3) ∧ ∃ k, IsNode (n + 2) k ∧ relabel i (n + 3) k = i :: t ∧ k.length = t.length ∧
      k.map (shift i (n + 3)) = t := by
  obtain ⟨hi, k, nk, hrel, hlen⟩ := isNode_relabel (n + 3) (by omega) i t ht hu
  refine ⟨hi, k, nk, hrel, hlen, ?_⟩
  simp only [relabel, List.cons.injEq, true_and] at hrel
  exact hrel

/-- **Every pair of adjacent specified nodes is joined by the recursion** (one orientation of each
kind of adjacency; the others follow by symmetry). -/
theorem build_edges_complete_half (n : Nat)
    (ihn : ∀ k, k ∈ (buildGraph (n + 2)).nodes ↔ k ∈ specNodes (n + 2))
    (ihe : ∀ k l, REdge (buildGraph (n + 2)) k l ↔
      k ∈ specNodes (n + 2) ∧ l ∈ specNodes (n + 2) ∧ adj (n + 2) k l = true)
    (u v : List Nat) (nu : IsNode (n + 3) u) (nv : IsNode (n + 3) v)
    (h : SwapP u v ∨ ExtP u v ∨ Ext2P (n + 3) u v) : REdge (buildGraph (n + 3)) u v := by
  have hunodes : u ∈ (buildGraph (n + 3)).nodes :=
    (C19_rec_nodes (n + 3) (by omega) u).2 ((isNode_iff _ _).2 nu)
  rcases h with ⟨hlen, hne, p, hp, hsw⟩ | ⟨hlen, htake⟩ | ⟨hl1, hl2, htake⟩
  · -- one swap of neighbouring entries
    cases p with
    | zero =>
      left
      refine (mem_build_edges n u v).2 (Or.inr ⟨hunodes, by omega, ?_⟩)
      rw [← hsw, swapAt_zero]
    | succ q =>
      cases u with
      | nil => simp at hp
      | cons i t =>
        have ht : t ≠ [] := by intro e; subst e; simp at hp
        rw [swapAt_cons_succ] at hsw
        subst hsw
        have ht' : swapAt t q ≠ [] := by
          intro e
          have := swapAt_length t q
          rw [e] at this
          exact ht (List.length_eq_zero_iff.1 this.symm)
        obtain ⟨hi, k, nk, hk1, hk2, hk3⟩ := pull_back n i t ht nu
        obtain ⟨_, l, nl, hl1, hl2, hl3⟩ := pull_back n i (swapAt t q) ht' nv
        rw [← hk1, ← hl1]
        apply corner_edge n ihe i hi k l nk nl
        rw [adj_iff]
        left
        refine ⟨by rw [hk2, hl2, swapAt_length], ?_, q, ?_, ?_⟩
        · intro e
          apply hne
          have : swapAt t q = t := by rw [← hl3, ← e, hk3]
          rw [this]
        · simp only [List.length_cons] at hp
          omega
        · apply map_shift_inj i (n + 3) hi
          · intro x hx
            exact isNode_range' n k nk x ((swapAt_perm k q).mem_iff.1 hx)
          · exact isNode_range' n l nl
          · rw [← swapAt_map, hk3, hl3]
  · -- v extends u by one entry
    cases u with
    | nil => exact absurd nu.2.2.1 (by simp)
    | cons i t =>
      cases v with
      | nil => simp at hlen
      | cons j t' =>
        simp only [List.length_cons, List.take_succ_cons, List.cons.injEq] at htake hlen
        obtain ⟨hji, htk⟩ := htake
        subst hji
        have ht' : t' ≠ [] := by intro e; subst e; simp at hlen
        obtain ⟨hi, l, nl, hl1, hl2, hl3⟩ := pull_back n j t' ht' nv
        by_cases ht : t = []
        · -- a bullet vote and a ranking of length two
          subst ht
          right
          refine (mem_build_edges n _ _).2 (Or.inl ⟨j, hi, Or.inr ⟨l, (ihn l).2 ((isNode_iff _ _).2 nl), ?_, hl1.symm, rfl⟩⟩)
          right
          rw [hl1]
          simp only [List.length_cons, List.length_nil] at hlen ⊢
          omega
        · obtain ⟨_, k, nk, hk1, hk2, hk3⟩ := pull_back n j t ht nu
          rw [← hk1, ← hl1]
          apply corner_edge n ihe j hi k l nk nl
          rw [adj_iff]
          right; left
          refine ⟨by rw [hk2, hl2]; omega, ?_⟩
          apply map_shift_inj j (n + 3) hi
          · intro x hx
            exact isNode_range' n l nl x (List.mem_of_mem_take hx)
          · exact isNode_range' n k nk
          · rw [List.map_take, hl3, hk3, hk2, htk]
  · -- a complete ranking and its prefix two entries shorter
    cases u with
    | nil => exact absurd nu.2.2.1 (by simp)
    | cons i t =>
      cases v with
      | nil => simp at hl2
      | cons j t' =>
        simp only [List.length_cons, List.take_succ_cons, List.cons.injEq] at htake hl1 hl2
        obtain ⟨hji, htk⟩ := htake
        subst hji
        have ht' : t' ≠ [] := by intro e; subst e; simp at hl2
        obtain ⟨hi, l, nl, hll1, hll2, hll3⟩ := pull_back n j t' ht' nv
        by_cases ht : t = []
        · -- three candidates: a bullet vote and a complete ranking
          subst ht
          right
          refine (mem_build_edges n _ _).2 (Or.inl ⟨j, hi, Or.inr ⟨l, (ihn l).2 ((isNode_iff _ _).2 nl), ?_, hll1.symm, rfl⟩⟩)
          left
          simp only [List.length_nil] at hl1
          omega
        · obtain ⟨_, k, nk, hk1, hk2, hk3⟩ := pull_back n j t ht nu
          rw [← hk1, ← hll1]
          apply corner_edge n ihe j hi k l nk nl
          rw [adj_iff]
          right; right; right; left
          refine ⟨by rw [hk2]; omega, by rw [hll2]; omega, ?_⟩
          apply map_shift_inj j (n + 3) hi
          · intro x hx
            exact isNode_range' n l nl x (List.mem_of_mem_take hx)
          · exact isNode_range' n k nk
          · rw [List.map_take, hll3, hk3, hk2, htk]

/-- **The recursion joins exactly the adjacent nodes**, for every number of candidates: two rankings are
joined in the recursively built graph iff both are specified nodes and they are adjacent. -/
theorem C19_rec_edges (n : Nat) (hn : 1 ≤ n) (u v : List Nat) :
    REdge (buildGraph n) u v ↔ u ∈ specNodes n ∧ v ∈ specNodes n ∧ adj n u v = true := by
  match n, hn with
  | 1, _ =>
    rw [specNodes_one]
    constructor
    · rintro (h | h) <;> simp [buildGraph] at h
    · rintro ⟨hu, hv, ha⟩
      simp only [List.mem_singleton] at hu hv
      subst hu hv
      exact absurd ha (by decide)
  | 2, _ =>
    rw [specNodes_two]
    constructor
    · rintro (h | h)
      · simp only [buildGraph, List.mem_singleton, Prod.mk.injEq] at h
        obtain ⟨rfl, rfl⟩ := h
        exact ⟨by simp, by simp, by decide⟩
      · simp only [buildGraph, List.mem_singleton, Prod.mk.injEq] at h
        obtain ⟨rfl, rfl⟩ := h
        exact ⟨by simp, by simp, by decide⟩
    · rintro ⟨hu, hv, ha⟩
      simp only [List.mem_cons, List.mem_singleton, List.not_mem_nil, or_false] at hu hv
      rcases hu with rfl | rfl <;> rcases hv with rfl | rfl
      · exact absurd ha (by decide)
      · exact Or.inl (by simp [buildGraph])
      · exact Or.inr (by simp [buildGraph])
      · exact absurd ha (by decide)
  | n + 3, _ =>
    have ihn : ∀ k, k ∈ (buildGraph (n + 2)).nodes ↔ k ∈ specNodes (n + 2) :=
      fun k => C19_rec_nodes (n + 2) (by omega) k
    have ihe : ∀ k l, REdge (buildGraph (n + 2)) k l ↔
        k ∈ specNodes (n + 2) ∧ l ∈ specNodes (n + 2) ∧ adj (n + 2) k l = true :=
      fun k l => C19_rec_edges (n + 2) (by omega) k l
    constructor
    · rintro (h | h)
      · obtain ⟨a, b, c⟩ := build_edges_sound n ihn ihe u v h
        exact ⟨(isNode_iff _ _).2 a, (isNode_iff _ _).2 b, c⟩
      · obtain ⟨a, b, c⟩ := build_edges_sound n ihn ihe v u h
        exact ⟨(isNode_iff _ _).2 b, (isNode_iff _ _).2 a, by rw [C19_adj_symm]; exact c⟩
    · rintro ⟨hu, hv, ha⟩
      have nu := (isNode_iff _ _).1 hu
      have nv := (isNode_iff _ _).1 hv
      rcases (adj_iff _ _ _).1 ha with h | h | h | h | h
      · exact build_edges_complete_half n ihn ihe u v nu nv (Or.inl h)
      · exact build_edges_complete_half n ihn ihe u v nu nv (Or.inr (Or.inl h))
      · exact (REdge_symm _ _ _).1 (build_edges_complete_half n ihn ihe v u nv nu (Or.inr (Or.inl h)))
      · exact build_edges_complete_half n ihn ihe u v nu nv (Or.inr (Or.inr h))
      · exact (REdge_symm _ _ _).1 (build_edges_complete_half n ihn ihe v u nv nu (Or.inr (Or.inr h)))

/-- every edge the recursion records joins two different nodes (no self-loops), so the canonical edge
list the driver prints loses nothing -/
theorem C19_rec_no_loops (n : Nat) (hn : 1 ≤ n) (u : List Nat) : ¬ REdge (buildGraph n) u u := by
  intro h
  have := ((C19_rec_edges n hn u u).1 h).2.2
  rw [adj_iff] at this
  rcases this with ⟨_, hne, _⟩ | ⟨hl, _⟩ | ⟨hl, _⟩ | ⟨h1, h2, _⟩ | ⟨h1, h2, _⟩
  · exact hne rfl
  · omega
  · omega
  · omega
  · omega

/-- non-vacuity: for four candidates the bullet vote [2] is joined to [2, 1], and [1, 2] to the complete
ranking [1, 2, 3, 4] -/
example : REdge (buildGraph 4) [2] [2, 1] ∧ REdge (buildGraph 4) [1, 2] [1, 2, 3, 4] := by
  constructor
  · exact (C19_rec_edges 4 (by omega) _ _).2 (by decide)
  · exact (C19_rec_edges 4 (by omega) _ _).2 (by decide)

end VK

