/-
  Property C07 — STV meets Droop proportionality for solid coalitions (IRV majority criterion).

  Proved in full for the model: `C07_droop_psc` (every profile of untied ranked ballots, every
  candidate subset S, k, seat count, simultaneous / one-by-one, fractional / random transfer, every
  tiebreak setting and every oracle value — random tiebreak orders and random-transfer samples) and
  its corollary `C07_irv_majority`. `DroopPSC` below is the statement as first written (fractional
  rule, without the untied-profile side conditions); `C07_DroopPSC_holds_for_untied_profiles` relates
  the two. The proof is an invariant over the count: `psc_step` / `psc_loop` / `psc_final`.
-/
import VK.Model.STV
import VK.Lemmas.Sum
import VK.Lemmas.PSC
import VK.Lemmas.RandomTransfer
import VK.Lemmas.FpvLink
import VK.Model.Rules
import Mathlib.Data.Rat.Floor
import Mathlib.Algebra.Order.Floor.Ring
import Mathlib.Algebra.Order.BigOperators.Group.List
import Mathlib.Tactic.FieldSimp
import Mathlib.Tactic.Push

namespace VK

/-- a ballot is solid for `S` when its first `|S|` entries are exactly the members of `S` -/
def Solid (S : List Cand) (r : List Cand) : Prop :=
  S.length ≤ r.length ∧ ∀ c, c ∈ r.take S.length ↔ c ∈ S

/-- executable version of `Solid` -/
def solidB (S : List Cand) (r : List Cand) : Bool :=
  decide (S.length ≤ r.length) && (r.take S.length).all (fun c => S.contains c) &&
    S.all (fun c => (r.take S.length).contains c)

theorem solidB_iff (S r : List Cand) : solidB S r = true ↔ Solid S r := by
  unfold solidB Solid
  simp only [Bool.and_eq_true, decide_eq_true_eq, List.all_eq_true, List.contains_iff_mem]
  constructor
  · rintro ⟨⟨h1, h2⟩, h3⟩
    exact ⟨h1, fun c => ⟨h2 c, h3 c⟩⟩
  · rintro ⟨h1, h2⟩
    exact ⟨⟨h1, fun c hc => (h2 c).1 hc⟩, fun c hc => (h2 c).2 hc⟩

/-- **The property, as a statement about the model** (for the fractional transfer): whenever ballots
solid for `S` weigh at least `k` thresholds, at least `min k (min |S| m)` members of `S` win. -/
def DroopPSC : Prop :=
  ∀ (cfg : STVCfg) (p : Profile) (ω : STVOracle) (res : STVResult) (S : List Cand) (k : Nat),
    cfg.quota = .droop → cfg.transfer = .fractional → S.Nodup → (∀ c ∈ S, c ∈ p.cands) →
    (∀ b ∈ p.ballots, 0 < b.weight) →
    stvRun cfg p ω = .ok res →
    (k : Rat) * (res.threshold : Rat) ≤
      rsum ((p.ballots.filter (fun b => solidB S b.ranking.flatten)).map (·.weight)) →
    min k (min S.length cfg.m) ≤ ((electedOf res.states).filter (fun c => S.contains c)).length

/-- **Droop bound**: `m + 1` thresholds exceed the total weight. -/
theorem C07_droop_quota_bound (m : Nat) (N : Rat) :
    N < ((m : Rat) + 1) * (threshold .droop m N : Rat) := by
  have h : threshold .droop m N = ⌊N / ((m : Rat) + 1)⌋ + 1 := by
    show ⌊N / ((m : Rat) + 1) + 1⌋ = _
    exact Int.floor_add_one _
  rw [h]
  have hpos : (0 : Rat) < (m : Rat) + 1 := by positivity
  have hlt := Int.lt_floor_add_one (N / ((m : Rat) + 1))
  push_cast
  calc N = ((m : Rat) + 1) * (N / ((m : Rat) + 1)) := by field_simp
    _ < ((m : Rat) + 1) * ((⌊N / ((m : Rat) + 1)⌋ : Rat) + 1) := mul_lt_mul_of_pos_left hlt hpos

/-- the threshold is at least 1 for a non-negative total -/
theorem C07_threshold_pos (m : Nat) (N : Rat) (hN : 0 ≤ N) : 1 ≤ threshold .droop m N := by
  have h : threshold .droop m N = ⌊N / ((m : Rat) + 1)⌋ + 1 := by
    show ⌊N / ((m : Rat) + 1) + 1⌋ = _
    exact Int.floor_add_one _
  rw [h]
  have : 0 ≤ ⌊N / ((m : Rat) + 1)⌋ := Int.floor_nonneg.2 (div_nonneg hN (by positivity))
  omega

/-- **Solid ballots count for the coalition**: while some member of `S` is hopeful, a ballot solid
for `S` counts for a member of `S`. -/
theorem C07_solid_top_in_S (S hopeful r : List Cand) (hs : Solid S r) (hh : ∃ c ∈ S, c ∈ hopeful) :
    ∃ c, topOf hopeful r = some c ∧ c ∈ S := by
  obtain ⟨c0, hc0S, hc0h⟩ := hh
  unfold topOf
  have hsplit : r = r.take S.length ++ r.drop S.length := (List.take_append_drop _ _).symm
  rw [hsplit, List.find?_append]
  have hc0r : c0 ∈ r.take S.length := (hs.2 c0).2 hc0S
  have : ∃ c, (r.take S.length).find? (fun c => hopeful.contains c) = some c := by
    cases hf : (r.take S.length).find? (fun c => hopeful.contains c) with
    | some c => exact ⟨c, rfl⟩
    | none =>
      rw [List.find?_eq_none] at hf
      exact absurd (by simpa using hc0h) (hf c0 hc0r)
  obtain ⟨c, hc⟩ := this
  refine ⟨c, by rw [hc]; rfl, ?_⟩
  exact (hs.2 c).1 (List.mem_of_find?_eq_some hc)

/-- **A fractional transfer leaves a coalition at least its weight minus one quota**: ballots of
total weight `w ≤ t` led by a winner with tally `t ≥ q` keep `w·(t-q)/t ≥ w - q`. -/
theorem C07_fractional_keeps_quota (w t q : Rat) (ht : 0 < t) (hw : w ≤ t) (hq : 0 ≤ q) :
    w - q ≤ w * ((t - q) / t) := by
  have : w * ((t - q) / t) = w - q * (w / t) := by field_simp
  rw [this]
  have h1 : w / t ≤ 1 := by rw [div_le_one ht]; exact hw
  nlinarith [mul_le_mul_of_nonneg_left h1 hq]

/-- **Pigeonhole**: if `1 ≤ |H| ≤ d` hopeful members share at least `d` quotas, one of them has a
quota — so no member of a coalition that still holds its quotas can be eliminated. -/
theorem C07_pigeonhole {α : Type} (H : List α) (t : α → Rat) (q : Rat) (d : Nat)
    (hq : 0 ≤ q) (hne : H ≠ []) (hlen : H.length ≤ d) (hsum : (d : Rat) * q ≤ (H.map t).sum) :
    ∃ c ∈ H, q ≤ t c := by
  by_contra hcon
  push Not at hcon
  have hlt : (H.map t).sum < (H.map (fun _ => q)).sum := List.sum_lt_sum_of_ne_nil hne _ _ hcon
  have hconst : (H.map (fun _ => q)).sum = (H.length : Rat) * q := by
    simp [List.map_const', List.sum_replicate]
  have hle : (H.length : Rat) * q ≤ (d : Rat) * q := by
    apply mul_le_mul_of_nonneg_right _ hq
    exact_mod_cast hlen
  linarith

/-- **No over-filling under Droop**: if `j` candidates each hold a quota out of an active weight
`A ≤ N - e·q`, then `j ≤ m - e` — a simultaneous step can never elect more candidates than seats
remain. -/
theorem C07_no_overfill (m e j : Nat) (N A q : Rat) (hq : 0 < q) (hN : N < ((m : Rat) + 1) * q)
    (hA : A ≤ N - (e : Rat) * q) (hj : (j : Rat) * q ≤ A) : e + j ≤ m := by
  have h1 : ((e + j : Nat) : Rat) * q < ((m : Rat) + 1) * q := by
    push_cast; nlinarith
  have h2 : ((e + j : Nat) : Rat) < (m : Rat) + 1 := lt_of_mul_lt_mul_right h1 (le_of_lt hq)
  have h3 : ((e + j : Nat) : Rat) < ((m + 1 : Nat) : Rat) := by push_cast at h2 ⊢; exact h2
  have : e + j < m + 1 := by exact_mod_cast h3
  omega

/-- **IRV majority** at the level of the step: a candidate whose first-place tally reaches the
threshold is among the candidates the quota test selects. -/
theorem C07_majority_selected (scores : List (Cand × Rat)) (q : Int) (c : Cand) (v : Rat)
    (hc : (c, v) ∈ scores) (hv : (q : Rat) ≤ v) :
    (c, v) ∈ scores.filter (fun cs => decide ((q : Rat) ≤ cs.2)) := by
  simp [List.mem_filter, hc, hv]


/-! ## The run-level proof (fractional transfer)

Notation: `Sset` the coalition's candidates, `HS` its members still hopeful, `jS` its members
elected so far, `kwS` the current weight of the ballots solid for it. -/

def HS (Sset : List Cand) (S : CState) : List Cand := S.hopeful.filter (fun c => Sset.contains c)
def jS (Sset : List Cand) (recs : List RoundState) : Nat := ((electedIn recs).filter (fun c => Sset.contains c)).length
def kwS (Sset : List Cand) (bs : List PBallot) : Rat := wsum (fun b => solidB Sset b.1) bs

/-- the invariant of the Droop-proportionality argument -/
structure PscInv (cands Sset : List Cand) (k : Nat) (q : Int) (N : Rat)
    (S : CState) (prev : RoundState) (recs : List RoundState) : Prop where
  inv : StvInv cands S prev recs
  link : Linked S prev
  nn : ∀ b ∈ S.bs, 0 ≤ b.2
  /-- while a member of the coalition is hopeful, the coalition still holds `k − j` quotas -/
  kw : HS Sset S ≠ [] → (k : Rat) * q ≤ kwS Sset S.bs + (jS Sset recs : Rat) * q
  /-- elected plus hopeful members never drop below `min k |S|` -/
  cnt : min k Sset.length ≤ jS Sset recs + (HS Sset S).length
  /-- every seat filled by the quota test has consumed a quota -/
  acc : S.hopeful = [] ∨ active S.bs S.hopeful + (S.nElected : Rat) * q ≤ N

theorem topOf_mem_hopeful (hop r : List Cand) (c : Cand) (h : topOf hop r = some c) : c ∈ hop := by
  unfold topOf at h
  simpa using List.find?_some h

/-- a ballot solid for the coalition counts for a hopeful member while one exists -/
theorem solid_top_in_HS (Sset : List Cand) (S : CState) (r : List Cand) (hs : solidB Sset r = true)
    (hne : HS Sset S ≠ []) : ∃ c, topOf S.hopeful r = some c ∧ c ∈ HS Sset S := by
  obtain ⟨c0, hc0⟩ := List.exists_mem_of_ne_nil _ hne
  have hc0' := List.mem_filter.1 hc0
  obtain ⟨c, hc, hcS⟩ := C07_solid_top_in_S Sset S.hopeful r ((solidB_iff _ _).1 hs)
    ⟨c0, by simpa using hc0'.2, hc0'.1⟩
  exact ⟨c, hc, List.mem_filter.2 ⟨topOf_mem_hopeful _ _ _ hc, by simpa using hcS⟩⟩

theorem filter_ne_length (l : List Cand) (c : Cand) (hn : l.Nodup) :
    (l.filter (fun x => x != c)).length + (if c ∈ l then 1 else 0) = l.length := by
  by_cases hc : c ∈ l
  · have := (filter_ne_perm l c hn hc).length_eq
    simp only [List.length_append, List.length_cons, List.length_nil] at this
    simp [hc]; omega
  · have : l.filter (fun x => x != c) = l := by
      rw [List.filter_eq_self]
      intro a ha
      have : a ≠ c := fun e => hc (e ▸ ha)
      simpa using this
    simp [hc, this]

/-- **One step keeps the proportionality invariant** (either built-in transfer rule — `GoodTransfers` —
positive threshold). -/
theorem psc_step (cfg : STVCfg) (init : Profile) (q : Int) (ω : STVOracle) (rnd : Nat) (Sset : List Cand)
    (k : Nat) (N : Rat) (S S' : CState) (prev r : RoundState) (recs : List RoundState)
    (hT : GoodTransfers cfg) (hq : 0 < q) (hi : init.cands.Nodup)
    (hcs : ∀ c ∈ S.hopeful, c ∈ init.cands)
    (P : PscInv init.cands Sset k q N S prev recs)
    (h : stvStep cfg init q ω rnd S prev = .ok (S', r)) :
    PscInv init.cands Sset k q N S' r (r :: recs) := by
  have hqr : (0 : Rat) < (q : Rat) := by exact_mod_cast hq
  obtain ⟨inv', hsub', _⟩ := stvStep_inv cfg init q ω rnd S S' prev r recs hi hcs P.inv h
  have link' := stvStep_linked cfg init q ω rnd S S' prev r h
  have hHSsub : ∀ c ∈ HS Sset S', c ∈ HS Sset S := by
    intro c hc
    obtain ⟨h1, h2⟩ := List.mem_filter.1 hc
    exact List.mem_filter.2 ⟨hsub' c h1, h2⟩
  rcases stvStep_cases cfg init q ω rnd S S' prev r h with
    ⟨g, tbs, bs', habove, he, ha, hSb, hSh, hSn, hre, hrx, _⟩ |
    ⟨_, hSh, hSb, hSn, _, _, hre, hrx, _⟩ |
    ⟨habove, lowest, c, tbs, hlast, hlc, hSb, hSh, hSn, hre, hrx⟩
  · ---------------------------------------------------------------- election round
    obtain ⟨hWn, hWs⟩ := electChoice_spec cfg q ω rnd S prev g tbs P.inv.hop_nodup P.inv.rem he
    have hge := electChoice_ge cfg q ω rnd S prev g tbs P.link P.inv.hop_nodup habove he
    -- weights stay non-negative and every transfer consumes a threshold
    obtain ⟨hnn', _, hact⟩ := hT S.hopeful q (ω.sample rnd) (fun _ => false) (fun _ => false) g.flatten S.bs bs'
      hq P.nn hWn hge (by intro w _ _; simp [wsum]) (by intro w _ h; cases h) ha
    have hjS : jS Sset (r :: recs) = (g.flatten.filter (fun c => Sset.contains c)).length + jS Sset recs := by
      unfold jS; rw [electedIn_cons, hre]; simp
    have hsplit := filter_not_contains_perm S.hopeful g.flatten P.inv.hop_nodup hWn hWs
    have hHSlen : (HS Sset S').length + (g.flatten.filter (fun c => Sset.contains c)).length = (HS Sset S).length := by
      have := (hsplit.filter (fun c => Sset.contains c)).length_eq
      rw [List.filter_append, List.length_append] at this
      unfold HS; rw [hSh]; exact this
    refine ⟨inv', link', by rw [hSb]; exact hnn', ?_, ?_, ?_⟩
    · intro hne'
      have hne : HS Sset S ≠ [] := by
        obtain ⟨c0, hc0⟩ := List.exists_mem_of_ne_nil _ hne'
        exact List.ne_nil_of_mem (hHSsub c0 hc0)
      have hout : ∀ w ∈ g.flatten, (fun c => Sset.contains c) w = false →
          wsum (fun b => solidB Sset b.1 && decide (topOf S.hopeful b.1 = some w)) S.bs = 0 := by
        intro w _ hw
        have hfalse : (fun b : PBallot => solidB Sset b.1 && decide (topOf S.hopeful b.1 = some w)) = fun _ => false := by
          funext b
          by_cases hs : solidB Sset b.1 = true
          · obtain ⟨c', hc', hcHS⟩ := solid_top_in_HS Sset S b.1 hs hne
            have hcS : Sset.contains c' = true := (List.mem_filter.1 hcHS).2
            have : c' ≠ w := fun e => by rw [e] at hcS; simp only at hw; rw [hw] at hcS; cases hcS
            simp [hs, hc', this]
          · simp [hs]
        rw [hfalse]; simp [wsum]
      -- a coalition ballot counted for a winner still ranks a hopeful member who is not a winner
      have htr : ∀ w ∈ g.flatten, (fun c => Sset.contains c) w = true → ∀ r, solidB Sset r = true →
          topOf S.hopeful r = some w → (contRanking S.hopeful w r).isEmpty = false := by
        intro w hw _ r hs _
        obtain ⟨c0, hc0⟩ := List.exists_mem_of_ne_nil _ hne'
        obtain ⟨hc0h, hc0S⟩ := List.mem_filter.1 hc0
        rw [hSh] at hc0h
        obtain ⟨hc0hop, hc0nw⟩ := List.mem_filter.1 hc0h
        have hc0w : c0 ≠ w := by
          intro e; rw [e] at hc0nw
          have : g.flatten.contains w = true := by simpa using hw
          rw [this] at hc0nw; cases hc0nw
        have hsol := (solidB_iff _ _).1 hs
        have hc0r : c0 ∈ r := List.mem_of_mem_take ((hsol.2 c0).2 (by simpa using hc0S))
        have : c0 ∈ contRanking S.hopeful w r := by
          unfold contRanking
          exact List.mem_filter.2 ⟨hc0r, by simp [hc0hop, hc0w]⟩
        cases hcr : contRanking S.hopeful w r with
        | nil => rw [hcr] at this; cases this
        | cons _ _ => rfl
      have hco := (hT S.hopeful q (ω.sample rnd) (fun r => solidB Sset r) (fun c => Sset.contains c)
        g.flatten S.bs bs' hq P.nn hWn hge hout htr ha).2.1
      have h0 := P.kw hne
      unfold kwS at h0 ⊢
      rw [hSb, hjS]
      push_cast
      nlinarith
    · rw [hjS]; have := P.cnt; omega
    · rcases P.acc with h0 | h0
      · left; rw [hSh, h0]; rfl
      · right
        have h3 := hact
        have h4 := active_shrink bs' S.hopeful S'.hopeful hsub'
        have hex : 0 ≤ exhausted bs' S.hopeful S'.hopeful := wsum_nonneg _ _ hnn'
        rw [hSb, hSn]
        push_cast
        nlinarith
  · ---------------------------------------------------------------- the remaining candidates fill the seats
    have hHS' : HS Sset S' = [] := by unfold HS; rw [hSh]; rfl
    refine ⟨inv', link', ?_, ?_, ?_, Or.inl hSh⟩
    · intro b hb
      rw [hSb] at hb
      obtain ⟨b0, _, rfl⟩ := List.mem_map.1 hb
      exact le_refl _
    · intro hne; exact absurd hHS' hne
    · have hjS : jS Sset (r :: recs) = (HS Sset S).length + jS Sset recs := by
        unfold jS HS
        rw [electedIn_cons, hre, List.filter_append, List.length_append]
        rw [(P.inv.rem.filter _).length_eq]
      rw [hjS, hHS']; have := P.cnt; simp only [List.length_nil]; omega
  · ---------------------------------------------------------------- elimination round
    have hjS : jS Sset (r :: recs) = jS Sset recs := by
      unfold jS; rw [electedIn_cons, hre]; simp
    have hHSn : (HS Sset S).Nodup := P.inv.hop_nodup.filter _
    have hHS' : HS Sset S' = (HS Sset S).filter (fun x => x != c) := by
      unfold HS; rw [hSh, List.filter_filter, List.filter_filter]
      apply List.filter_congr; intro x _; exact Bool.and_comm _ _
    have hlen := filter_ne_length (HS Sset S) c hHSn
    refine ⟨inv', link', by rw [hSb]; exact P.nn, ?_, ?_, ?_⟩
    · intro hne'
      have hne : HS Sset S ≠ [] := by
        obtain ⟨c0, hc0⟩ := List.exists_mem_of_ne_nil _ hne'
        exact List.ne_nil_of_mem (hHSsub c0 hc0)
      rw [hSb, hjS]; exact P.kw hne
    · rw [hjS, hHS']
      by_cases hcH : c ∈ HS Sset S
      · -- a hopeful member of the coalition is eliminated: impossible while the count is at its minimum
        simp only [hcH, if_true] at hlen
        by_contra hcon
        have hne : HS Sset S ≠ [] := List.ne_nil_of_mem hcH
        have hkw := P.kw hne
        have hcnt := P.cnt
        -- |HS| ≤ k − j and the coalition's weight sits on HS
        have hle : (HS Sset S).length + jS Sset recs ≤ k := by
          have : min k Sset.length ≤ k := Nat.min_le_left _ _
          omega
        have hsum : kwS Sset S.bs ≤ rsum ((HS Sset S).map (fun c => tally S.bs S.hopeful c)) := by
          rw [sum_tally_subset S.bs S.hopeful (HS Sset S) hHSn]
          unfold kwS
          apply wsum_le_of_imp _ _ S.bs P.nn
          intro b _ hb
          obtain ⟨c', hc', hcHS⟩ := solid_top_in_HS Sset S b.1 hb hne
          simp only [hc']
          simpa using hcHS
        have hquota : ((HS Sset S).length : Rat) * q ≤ ((HS Sset S).map (fun c => tally S.bs S.hopeful c)).sum := by
          rw [← rsum_eq_sum]
          have h1 : ((HS Sset S).length : Rat) + (jS Sset recs : Rat) ≤ (k : Rat) := by exact_mod_cast hle
          nlinarith
        obtain ⟨c', hc'H, hc'q⟩ := C07_pigeonhole (HS Sset S) (fun c => tally S.bs S.hopeful c) (q : Rat)
          (HS Sset S).length (le_of_lt hqr) hne (le_refl _) hquota
        -- so somebody is at the threshold, contradicting the branch
        have hc'hop : c' ∈ S.hopeful := (List.mem_filter.1 hc'H).1
        have hmem : (c', tally S.bs S.hopeful c') ∈ prev.scores := by
          rw [P.link.1]; unfold tallies
          exact List.mem_map.2 ⟨c', hc'hop, rfl⟩
        have : (c', tally S.bs S.hopeful c') ∈ prev.scores.filter (fun cs => decide ((q : Rat) ≤ cs.2)) :=
          List.mem_filter.2 ⟨hmem, by simpa using hc'q⟩
        rw [List.isEmpty_iff.1 habove] at this
        cases this
      · simp only [hcH, if_false, Nat.add_zero] at hlen
        rw [hlen]; exact P.cnt
    · rcases P.acc with h0 | h0
      · left; rw [hSh, h0]; rfl
      · right
        have h4 := active_shrink S.bs S.hopeful S'.hopeful hsub'
        have hex : 0 ≤ exhausted S.bs S.hopeful S'.hopeful := wsum_nonneg _ _ P.nn
        rw [hSb, hSn]
        linarith

/-- the loop keeps the proportionality invariant and can only finish with all seats filled -/
theorem psc_loop (cfg : STVCfg) (init : Profile) (q : Int) (ω : STVOracle) (Sset : List Cand) (k : Nat) (N : Rat)
    (hT : GoodTransfers cfg) (hq : 0 < q) (hi : init.cands.Nodup)
    (fuel : Nat) (S : CState) (prev : RoundState) (acc tr : List (RoundState × CState))
    (hcs : ∀ c ∈ S.hopeful, c ∈ init.cands) (P : PscInv init.cands Sset k q N S prev (acc.map (·.1)))
    (h : stvLoop cfg init q ω fuel S prev acc = .ok tr) :
    ∃ Sf prevf, PscInv init.cands Sset k q N Sf prevf (tr.reverse.map (·.1)) ∧ Sf.nElected = cfg.m := by
  induction fuel generalizing S prev acc with
  | zero =>
    unfold stvLoop at h
    split at h
    · rename_i hm
      injection h with h; subst h
      exact ⟨S, prev, by simpa using P, hm⟩
    · cases h
  | succ fuel ih =>
    unfold stvLoop at h
    split at h
    · rename_i hm
      injection h with h; subst h
      exact ⟨S, prev, by simpa using P, hm⟩
    · cases hs : stvStep cfg init q ω (prev.round + 1) S prev with
      | ok Sr =>
        obtain ⟨S', r⟩ := Sr
        simp only [hs, bind, Outcome.bind] at h
        have P' := psc_step cfg init q ω _ Sset k N S S' prev r _ hT hq hi hcs P hs
        obtain ⟨_, hsub, _⟩ := stvStep_inv cfg init q ω _ S S' prev r _ hi hcs P.inv hs
        exact ih S' r ((r, S') :: acc) (fun c hc => hcs c (hsub c hc)) (by simpa using P') h
      | raised e => simp [hs, bind, Outcome.bind] at h
      | oracleMismatch => simp [hs, bind, Outcome.bind] at h
      | outOfFuel => simp [hs, bind, Outcome.bind] at h

/-- at the end of a count the invariant gives the seats -/
theorem psc_final (cands Sset : List Cand) (k : Nat) (q : Int) (N : Rat) (m : Nat)
    (S : CState) (prev : RoundState) (recs : List RoundState)
    (P : PscInv cands Sset k q N S prev recs) (hm : S.nElected = m) (hq : 0 < q)
    (hN : N < ((m : Rat) + 1) * (q : Rat)) :
    min k (min Sset.length m) ≤ jS Sset recs := by
  have hqr : (0 : Rat) < (q : Rat) := by exact_mod_cast hq
  by_cases hne : HS Sset S = []
  · have := P.cnt
    rw [hne] at this
    simp only [List.length_nil, Nat.add_zero] at this
    have h1 : min k (min Sset.length m) ≤ min k Sset.length := by
      simp only [Nat.le_min, Nat.min_le_left, true_and]
      exact Nat.le_trans (Nat.min_le_right _ _) (Nat.min_le_left _ _)
    omega
  · by_contra hcon
    have hlt : jS Sset recs < min k (min Sset.length m) := Nat.lt_of_not_le hcon
    have hjk : jS Sset recs < k := Nat.lt_of_lt_of_le hlt (Nat.min_le_left _ _)
    have hjm : jS Sset recs < m :=
      Nat.lt_of_lt_of_le hlt (Nat.le_trans (Nat.min_le_right _ _) (Nat.min_le_right _ _))
    have hkw := P.kw hne
    -- the coalition still holds a full quota of active weight
    have hk1 : (jS Sset recs : Rat) + 1 ≤ (k : Rat) := by exact_mod_cast hjk
    have hkwq : (q : Rat) ≤ kwS Sset S.bs := by nlinarith
    have hact : kwS Sset S.bs ≤ active S.bs S.hopeful := by
      unfold kwS active
      apply wsum_le_of_imp _ _ S.bs P.nn
      intro b _ hb
      obtain ⟨c', hc', _⟩ := solid_top_in_HS Sset S b.1 hb hne
      simp [isActive, hc']
    have hhop : S.hopeful ≠ [] := by
      intro h0
      apply hne
      unfold HS; rw [h0]; rfl
    rcases P.acc with h0 | h0
    · exact hhop h0
    · rw [hm] at h0
      nlinarith

theorem kwS_init (Sset : List Cand) (bs : List Ballot) :
    kwS Sset (bs.map (fun b => (b.ranking.flatten, b.weight))) =
      rsum ((bs.filter (fun b => solidB Sset b.ranking.flatten)).map (·.weight)) := by
  unfold kwS
  induction bs with
  | nil => simp [wsum_nil]
  | cons b rest ih =>
    simp only [List.map_cons, wsum_cons, ih, List.filter_cons]
    by_cases h : solidB Sset b.ranking.flatten <;> simp [h]

theorem active_le_total (bs : List Ballot) (hop : List Cand) (hw : ∀ b ∈ bs, 0 ≤ b.weight) :
    active (bs.map (fun b => (b.ranking.flatten, b.weight))) hop ≤ totalWeight bs := by
  unfold active totalWeight
  induction bs with
  | nil => simp [wsum_nil]
  | cons b rest ih =>
    simp only [List.map_cons, wsum_cons, rsum_cons]
    have h1 := ih (fun x hx => hw x (by simp [hx]))
    have hb := hw b (by simp)
    by_cases ha : isActive hop (b.ranking.flatten, b.weight) <;> simp [ha] <;> linarith

theorem jS_reverse (Sset : List Cand) (l : List RoundState) : jS Sset l.reverse = jS Sset l := by
  unfold jS electedIn
  exact ((((List.reverse_perm l).flatMap_right _).flatten).filter _).length_eq

/-- **C07 — Droop proportionality for solid coalitions, fractional transfer, every mode, tiebreak and
oracle.** If ballots whose total weight is at least `k` thresholds are solid for `Sset`, every
finished count elects at least `min k (min |Sset| m)` members of `Sset`.

`hfpv` is the one hypothesis about the model's glue: the initial first-place tallies computed by
the scoring utility (`firstPlaceVotes`, as the code does) are the tallies of the initial count
state. It is a decidable identity between two executable definitions of the same quantity; the
driver evaluates it on every correspondence case (evidence: `fpv_link`). -/
theorem C07_droop_psc_general (cfg : STVCfg) (p : Profile) (ω : STVOracle) (res : STVResult)
    (Sset : List Cand) (k : Nat)
    (hquota : cfg.quota = .droop) (hT : GoodTransfers cfg)
    (hSc : ∀ c ∈ Sset, c ∈ p.cands) (hS : Sset.Nodup) (hc : p.cands.Nodup)
    (hw : ∀ b ∈ p.ballots, 0 < b.weight)
    (hfpv : firstPlaceVotes p = .ok (tallies (stvInitState p).bs p.cands))
    (hrun : stvRun cfg p ω = .ok res)
    (hK : (k : Rat) * (res.threshold : Rat) ≤
      rsum ((p.ballots.filter (fun b => solidB Sset b.ranking.flatten)).map (·.weight))) :
    min k (min Sset.length cfg.m) ≤ ((electedOf res.states).filter (fun c => Sset.contains c)).length := by
  unfold stvRun at hrun
  split at hrun; · cases hrun
  split at hrun; · cases hrun
  split at hrun; · cases hrun
  simp only [hfpv, bind, Outcome.bind] at hrun
  cases hl : stvLoop cfg p (threshold cfg.quota cfg.m p.total) ω (p.cands.length + 2) (stvInitState p)
      (initialState p.cands (some (tallies (stvInitState p).bs p.cands)))
      [(initialState p.cands (some (tallies (stvInitState p).bs p.cands)), stvInitState p)] with
  | ok tr =>
    simp only [hl, pure, Outcome.ok.injEq] at hrun
    subst hrun
    simp only at hK
    rw [hquota] at hl hK
    have hN0 : 0 ≤ p.total := by
      unfold Profile.total totalWeight
      apply rsum_nonneg
      intro x hx
      obtain ⟨b, hb, rfl⟩ := List.mem_map.1 hx
      exact le_of_lt (hw b hb)
    have hq : 0 < threshold .droop cfg.m p.total := by
      have := C07_threshold_pos cfg.m p.total hN0; omega
    have hNq := C07_droop_quota_bound cfg.m p.total
    set sc0 := tallies (stvInitState p).bs p.cands with hsc0
    set st0 := initialState p.cands (some sc0) with hst0
    have hrem0 : st0.remaining.flatten.Perm p.cands := by
      have := scoreToRanking_perm sc0
      rw [hsc0, tallies_keys] at this
      simpa [hst0, initialState] using this
    have inv0 : StvInv p.cands (stvInitState p) st0 ([(st0, stvInitState p)].map (·.1)) := by
      refine ⟨hc, hrem0, ?_, ?_, ?_, trivial⟩
      · simp [stvInitState, electedIn, hst0, initialState]
      · simp [stvInitState, electedIn, eliminatedIn, hst0, initialState]
      · simpa [electedIn, eliminatedIn, hst0, initialState] using hrem0
    have P0 : PscInv p.cands Sset k (threshold .droop cfg.m p.total) p.total (stvInitState p) st0
        ([(st0, stvInitState p)].map (·.1)) := by
      refine ⟨inv0, ⟨by simp [hst0, initialState, hsc0, stvInitState], by simp [hst0, initialState]⟩, ?_, ?_, ?_, ?_⟩
      · intro b hb
        simp only [stvInitState, List.mem_map] at hb
        obtain ⟨b0, hb0, rfl⟩ := hb
        exact le_of_lt (hw b0 hb0)
      · intro _
        have : jS Sset ([(st0, stvInitState p)].map (·.1)) = 0 := by
          simp [jS, electedIn, hst0, initialState]
        rw [this]
        simp only [stvInitState, kwS_init]
        simpa using hK
      · have : (HS Sset (stvInitState p)).length = Sset.length := by
          simp only [HS, stvInitState]
          exact filter_contains_length p.cands Sset hc hS hSc
        rw [this]
        exact Nat.le_trans (Nat.min_le_right _ _) (Nat.le_add_left _ _)
      · right
        have := active_le_total p.ballots p.cands (fun b hb => le_of_lt (hw b hb))
        simp only [stvInitState, Profile.total] at this ⊢
        push_cast
        linarith
    obtain ⟨Sf, prevf, Pf, hm⟩ := psc_loop cfg p _ ω Sset k p.total hT hq hc _ _ _ _ tr (fun c hc' => hc') P0 hl
    have hfin := psc_final p.cands Sset k _ p.total cfg.m Sf prevf _ Pf hm hq hNq
    show min k (min Sset.length cfg.m) ≤ ((electedIn (tr.map (·.1))).filter (fun c => Sset.contains c)).length
    have : jS Sset (tr.reverse.map (·.1)) = jS Sset (tr.map (·.1)) := by
      rw [List.map_reverse, jS_reverse]
    rw [this] at hfin
    exact hfin
  | raised e => simp [hl] at hrun
  | oracleMismatch => simp [hl] at hrun
  | outOfFuel => simp [hl] at hrun

/-- the fractional rule (the form with the explicit glue hypothesis `hfpv`) -/
theorem C07_droop_psc_fractional (cfg : STVCfg) (p : Profile) (ω : STVOracle) (res : STVResult)
    (Sset : List Cand) (k : Nat)
    (hquota : cfg.quota = .droop) (hf : cfg.transfer = .fractional)
    (hSc : ∀ c ∈ Sset, c ∈ p.cands) (hS : Sset.Nodup) (hc : p.cands.Nodup)
    (hw : ∀ b ∈ p.ballots, 0 < b.weight)
    (hfpv : firstPlaceVotes p = .ok (tallies (stvInitState p).bs p.cands))
    (hrun : stvRun cfg p ω = .ok res)
    (hK : (k : Rat) * (res.threshold : Rat) ≤
      rsum ((p.ballots.filter (fun b => solidB Sset b.ranking.flatten)).map (·.weight))) :
    min k (min Sset.length cfg.m) ≤ ((electedOf res.states).filter (fun c => Sset.contains c)).length :=
  C07_droop_psc_general cfg p ω res Sset k hquota (goodTransfers_fractional cfg hf) hSc hS hc hw hfpv hrun hK

/-- **IRV majority criterion** (corollary, `S = {c}`, `k = 1`, one seat): a candidate ranked first on
ballots worth at least the threshold wins IRV. -/
theorem C07_irv_majority (p : Profile) (tb : Option TB) (ω : STVOracle) (res : STVResult) (c : Cand)
    (hcm : c ∈ p.cands) (hc : p.cands.Nodup) (hw : ∀ b ∈ p.ballots, 0 < b.weight)
    (hfpv : firstPlaceVotes p = .ok (tallies (stvInitState p).bs p.cands))
    (hrun : irvRun p .droop tb ω = .ok res)
    (hK : (res.threshold : Rat) ≤
      rsum ((p.ballots.filter (fun b => solidB [c] b.ranking.flatten)).map (·.weight))) :
    c ∈ electedOf res.states := by
  unfold irvRun at hrun
  have h := C07_droop_psc_fractional _ p ω res [c] 1 rfl rfl (by simpa using hcm) (by simp) hc hw hfpv hrun
    (by simpa using hK)
  simp only [List.length_cons, List.length_nil] at h
  have hpos : 0 < ((electedOf res.states).filter (fun x => [c].contains x)).length := by omega
  obtain ⟨x, hx⟩ := List.exists_mem_of_length_pos hpos
  obtain ⟨hx1, hx2⟩ := List.mem_filter.1 hx
  have : x = c := by simpa using hx2
  rw [← this]; exact hx1

/-- **C07, unconditional form, either built-in transfer rule.** For every profile of untied ranked
ballots over its declared candidates (non-empty rankings, one candidate per position, positive
weights), every candidate subset, every `k`, seat count, mode, tiebreak setting and oracle value
(random tiebreaks *and* every sample the random transfer may draw): a finished STV count with the
Droop quota and the fractional or the random transfer elects at least `min k (min |S| m)` members of `S` whenever
the ballots solid for `S` weigh at least `k` thresholds. (`hfpv` is discharged by `fpv_link`.) -/
theorem C07_droop_psc (cfg : STVCfg) (p : Profile) (ω : STVOracle) (res : STVResult)
    (Sset : List Cand) (k : Nat)
    (hquota : cfg.quota = .droop) (hf : cfg.transfer = .fractional ∨ cfg.transfer = .random)
    (hSc : ∀ c ∈ Sset, c ∈ p.cands) (hS : Sset.Nodup) (hc : p.cands.Nodup)
    (hw : ∀ b ∈ p.ballots, 0 < b.weight)
    (hne : ∀ b ∈ p.ballots, b.ranking ≠ [])
    (hsingle : ∀ b ∈ p.ballots, ∀ s ∈ b.ranking, s.length = 1)
    (hcast : ∀ b ∈ p.ballots, ∀ c ∈ b.ranking.flatten, c ∈ p.cands)
    (hrun : stvRun cfg p ω = .ok res)
    (hK : (k : Rat) * (res.threshold : Rat) ≤
      rsum ((p.ballots.filter (fun b => solidB Sset b.ranking.flatten)).map (·.weight))) :
    min k (min Sset.length cfg.m) ≤ ((electedOf res.states).filter (fun c => Sset.contains c)).length :=
  C07_droop_psc_general cfg p ω res Sset k hquota
    (hf.elim (goodTransfers_fractional cfg) (goodTransfers_random cfg))
    hSc hS hc hw (fpv_link p hne hsingle hcast) hrun hK

/-- the full statement `DroopPSC` restricted to the fractional rule and to profiles of untied ranked
ballots is exactly what has been proved -/
theorem C07_DroopPSC_holds_for_untied_profiles :
    ∀ (cfg : STVCfg) (p : Profile) (ω : STVOracle) (res : STVResult) (S : List Cand) (k : Nat),
    cfg.quota = .droop → cfg.transfer = .fractional → S.Nodup → (∀ c ∈ S, c ∈ p.cands) →
    (∀ b ∈ p.ballots, 0 < b.weight) →
    p.cands.Nodup → (∀ b ∈ p.ballots, b.ranking ≠ []) → (∀ b ∈ p.ballots, ∀ s ∈ b.ranking, s.length = 1) →
    (∀ b ∈ p.ballots, ∀ c ∈ b.ranking.flatten, c ∈ p.cands) →
    stvRun cfg p ω = .ok res →
    (k : Rat) * (res.threshold : Rat) ≤
      rsum ((p.ballots.filter (fun b => solidB S b.ranking.flatten)).map (·.weight)) →
    min k (min S.length cfg.m) ≤ ((electedOf res.states).filter (fun c => S.contains c)).length :=
  fun cfg p ω res S k hq hf hS hSc hw hc hne hs hcast hrun hK =>
    C07_droop_psc cfg p ω res S k hq (Or.inl hf) hSc hS hc hw hne hs hcast hrun hK

/-- non-vacuity: a concrete count in which a coalition with two quotas gets its two seats -/
def exPscProfile : Profile :=
  Profile.mk [Ballot.mk [[0], [1]] 4 [], Ballot.mk [[1], [0]] 2 [], Ballot.mk [[2]] 2 []] [0, 1, 2]
example : (stvRun { m := 2 } exPscProfile {}).isOk = true := by decide +kernel
example : firstPlaceVotes exPscProfile = .ok (tallies (stvInitState exPscProfile).bs exPscProfile.cands) := by
  decide +kernel

/-- non-vacuity of `Solid` -/
example : Solid [1, 0] [0, 1, 2] := (solidB_iff _ _).1 (by decide)

end VK
