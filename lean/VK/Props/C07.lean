/-
  Property C07 — STV meets Droop proportionality for solid coalitions (IRV majority criterion).

  Full statement (kept visible; see `DroopPSC` below). This file proves the arithmetic and
  combinatorial lemmas of the argument over the model's count state; the run-level induction that
  assembles them is work in progress and the full statement is checked on the implementation for
  ALL candidate subsets by the monitor of the C07 check.
-/
import VK.Model.STV
import VK.Lemmas.Sum
import Mathlib.Data.Rat.Floor
import Mathlib.Algebra.Order.Floor.Ring
import Mathlib.Algebra.Order.BigOperators.Group.List
import Mathlib.Tactic.FieldSimp
import Mathlib.Tactic.Push

namespace VK

/-- a ballot is solid for `S` when its first `|S|` entries are exactly the members of `S` -/
def Solid (S : List Cand) (r : List Cand) : Prop :=
  S.length ≤ r.length ∧ ∀ c, c ∈ r.take S.length ↔ c ∈ S

/-- executable version of `Solid` -/
def solidB (S : List Cand) (r : List Cand) : Bool :=
  decide (S.length ≤ r.length) && (r.take S.length).all (fun c => S.contains c) &&
    S.all (fun c => (r.take S.length).contains c)

theorem solidB_iff (S r : List Cand) : solidB S r = true ↔ Solid S r := by
  unfold solidB Solid
  simp only [Bool.and_eq_true, decide_eq_true_eq, List.all_eq_true, List.contains_iff_mem]
  constructor
  · rintro ⟨⟨h1, h2⟩, h3⟩
    exact ⟨h1, fun c => ⟨h2 c, h3 c⟩⟩
  · rintro ⟨h1, h2⟩
    exact ⟨⟨h1, fun c hc => (h2 c).1 hc⟩, fun c hc => (h2 c).2 hc⟩

/-- **The property, as a statement about the model** (for the fractional transfer): whenever ballots
solid for `S` weigh at least `k` thresholds, at least `min k (min |S| m)` members of `S` win. -/
def DroopPSC : Prop :=
  ∀ (cfg : STVCfg) (p : Profile) (ω : STVOracle) (res : STVResult) (S : List Cand) (k : Nat),
    cfg.quota = .droop → cfg.transfer = .fractional → S.Nodup → (∀ c ∈ S, c ∈ p.cands) →
    (∀ b ∈ p.ballots, 0 < b.weight) →
    stvRun cfg p ω = .ok res →
    (k : Rat) * (res.threshold : Rat) ≤
      rsum ((p.ballots.filter (fun b => solidB S b.ranking.flatten)).map (·.weight)) →
    min k (min S.length cfg.m) ≤ ((electedOf res.states).filter (fun c => S.contains c)).length

/-- **Droop bound**: `m + 1` thresholds exceed the total weight. -/
theorem C07_droop_quota_bound (m : Nat) (N : Rat) :
    N < ((m : Rat) + 1) * (threshold .droop m N : Rat) := by
  have h : threshold .droop m N = ⌊N / ((m : Rat) + 1)⌋ + 1 := by
    show ⌊N / ((m : Rat) + 1) + 1⌋ = _
    exact Int.floor_add_one _
  rw [h]
  have hpos : (0 : Rat) < (m : Rat) + 1 := by positivity
  have hlt := Int.lt_floor_add_one (N / ((m : Rat) + 1))
  push_cast
  calc N = ((m : Rat) + 1) * (N / ((m : Rat) + 1)) := by field_simp
    _ < ((m : Rat) + 1) * ((⌊N / ((m : Rat) + 1)⌋ : Rat) + 1) := mul_lt_mul_of_pos_left hlt hpos

/-- the threshold is at least 1 for a non-negative total -/
theorem C07_threshold_pos (m : Nat) (N : Rat) (hN : 0 ≤ N) : 1 ≤ threshold .droop m N := by
  have h : threshold .droop m N = ⌊N / ((m : Rat) + 1)⌋ + 1 := by
    show ⌊N / ((m : Rat) + 1) + 1⌋ = _
    exact Int.floor_add_one _
  rw [h]
  have : 0 ≤ ⌊N / ((m : Rat) + 1)⌋ := Int.floor_nonneg.2 (div_nonneg hN (by positivity))
  omega

/-- **Solid ballots count for the coalition**: while some member of `S` is hopeful, a ballot solid
for `S` counts for a member of `S`. -/
theorem C07_solid_top_in_S (S hopeful r : List Cand) (hs : Solid S r) (hh : ∃ c ∈ S, c ∈ hopeful) :
    ∃ c, topOf hopeful r = some c ∧ c ∈ S := by
  obtain ⟨c0, hc0S, hc0h⟩ := hh
  unfold topOf
  have hsplit : r = r.take S.length ++ r.drop S.length := (List.take_append_drop _ _).symm
  rw [hsplit, List.find?_append]
  have hc0r : c0 ∈ r.take S.length := (hs.2 c0).2 hc0S
  have : ∃ c, (r.take S.length).find? (fun c => hopeful.contains c) = some c := by
    cases hf : (r.take S.length).find? (fun c => hopeful.contains c) with
    | some c => exact ⟨c, rfl⟩
    | none =>
      rw [List.find?_eq_none] at hf
      exact absurd (by simpa using hc0h) (hf c0 hc0r)
  obtain ⟨c, hc⟩ := this
  refine ⟨c, by rw [hc]; rfl, ?_⟩
  exact (hs.2 c).1 (List.mem_of_find?_eq_some hc)

/-- **A fractional transfer leaves a coalition at least its weight minus one quota**: ballots of
total weight `w ≤ t` led by a winner with tally `t ≥ q` keep `w·(t-q)/t ≥ w - q`. -/
theorem C07_fractional_keeps_quota (w t q : Rat) (ht : 0 < t) (hw : w ≤ t) (hq : 0 ≤ q) :
    w - q ≤ w * ((t - q) / t) := by
  have : w * ((t - q) / t) = w - q * (w / t) := by field_simp
  rw [this]
  have h1 : w / t ≤ 1 := by rw [div_le_one ht]; exact hw
  nlinarith [mul_le_mul_of_nonneg_left h1 hq]

/-- **Pigeonhole**: if `1 ≤ |H| ≤ d` hopeful members share at least `d` quotas, one of them has a
quota — so no member of a coalition that still holds its quotas can be eliminated. -/
theorem C07_pigeonhole {α : Type} (H : List α) (t : α → Rat) (q : Rat) (d : Nat)
    (hq : 0 ≤ q) (hne : H ≠ []) (hlen : H.length ≤ d) (hsum : (d : Rat) * q ≤ (H.map t).sum) :
    ∃ c ∈ H, q ≤ t c := by
  by_contra hcon
  push Not at hcon
  have hlt : (H.map t).sum < (H.map (fun _ => q)).sum := List.sum_lt_sum_of_ne_nil hne _ _ hcon
  have hconst : (H.map (fun _ => q)).sum = (H.length : Rat) * q := by
    simp [List.map_const', List.sum_replicate]
  have hle : (H.length : Rat) * q ≤ (d : Rat) * q := by
    apply mul_le_mul_of_nonneg_right _ hq
    exact_mod_cast hlen
  linarith

/-- **No over-filling under Droop**: if `j` candidates each hold a quota out of an active weight
`A ≤ N - e·q`, then `j ≤ m - e` — a simultaneous step can never elect more candidates than seats
remain. -/
theorem C07_no_overfill (m e j : Nat) (N A q : Rat) (hq : 0 < q) (hN : N < ((m : Rat) + 1) * q)
    (hA : A ≤ N - (e : Rat) * q) (hj : (j : Rat) * q ≤ A) : e + j ≤ m := by
  have h1 : ((e + j : Nat) : Rat) * q < ((m : Rat) + 1) * q := by
    push_cast; nlinarith
  have h2 : ((e + j : Nat) : Rat) < (m : Rat) + 1 := lt_of_mul_lt_mul_right h1 (le_of_lt hq)
  have h3 : ((e + j : Nat) : Rat) < ((m + 1 : Nat) : Rat) := by push_cast at h2 ⊢; exact h2
  have : e + j < m + 1 := by exact_mod_cast h3
  omega

/-- **IRV majority** at the level of the step: a candidate whose first-place tally reaches the
threshold is among the candidates the quota test selects. -/
theorem C07_majority_selected (scores : List (Cand × Rat)) (q : Int) (c : Cand) (v : Rat)
    (hc : (c, v) ∈ scores) (hv : (q : Rat) ≤ v) :
    (c, v) ∈ scores.filter (fun cs => decide ((q : Rat) ≤ cs.2)) := by
  simp [List.mem_filter, hc, hv]

/-- non-vacuity of `Solid` -/
example : Solid [1, 0] [0, 1, 2] := (solidB_iff _ _).1 (by decide)

end VK
