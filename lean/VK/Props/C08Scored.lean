/-
  C08 — representation invariance of the STV family for EVERY tiebreak configuration of the fractional
  transfer, including one-by-one election with a scored ('borda' / 'first_place') tiebreak, which consults
  the profile currently held: every positional score of that profile is a weight-linear functional of the
  count state (`scoreFromRankings_current`), so it is the same for equivalent ballot lists.
-/
import VK.Props.C08
import VK.Props.C09
import VK.Lemmas.RescoreLin

namespace VK

/-- what each of the two runs carries along -/
structure RunInv (cfg : STVCfg) (init : Profile) (S : CState) (prev : RoundState) (recs : List RoundState) : Prop where
  inv : StvInv init.cands S prev recs
  linked : Linked S prev
  nonneg : ∀ b ∈ S.bs, 0 ≤ b.2
  sub : ∀ c ∈ S.hopeful, c ∈ init.cands

theorem stvLoop_lineq_inv (cfg : STVCfg) (init init' : Profile) (q : Int) (ω : STVOracle)
    (hnr : cfg.transfer ≠ .random) (hT : GoodTransfers cfg) (hq : 0 < q)
    (hi : init.cands.Nodup) (hi' : init'.cands.Nodup)
    (hinit : firstPlaceVotes init = firstPlaceVotes init')
    (fuel : Nat) (S S2 : CState) (prev : RoundState) (acc acc2 : List (RoundState × CState))
    (hS : SameCount S S2) (hacc : acc.map (·.1) = acc2.map (·.1))
    (h1 : RunInv cfg init S prev (acc.map (·.1))) (h2 : RunInv cfg init' S2 prev (acc2.map (·.1))) :
    RelTrace (stvLoop cfg init q ω fuel S prev acc) (stvLoop cfg init' q ω fuel S2 prev acc2) := by
  induction fuel generalizing S S2 prev acc acc2 with
  | zero =>
    unfold stvLoop
    rw [← hS.2.1]
    split
    · simp only [RelTrace, List.map_reverse, hacc]
    · simp [RelTrace]
  | succ fuel ih =>
    unfold stvLoop
    rw [← hS.2.1]
    split
    · simp only [RelTrace, List.map_reverse, hacc]
    · have hec := electChoice_lineq cfg q ω (prev.round + 1) S S2 prev hS.1 hS.2.2 h1.nonneg h2.nonneg
      have hstep := stvStep_lineq_of cfg init init' q ω (prev.round + 1) S S2 prev hnr hec hinit hS
      cases e1 : stvStep cfg init q ω (prev.round + 1) S prev with
      | ok a =>
        cases e2 : stvStep cfg init' q ω (prev.round + 1) S2 prev with
        | ok b =>
          rw [e1, e2] at hstep
          obtain ⟨hr, hS'⟩ := hstep
          obtain ⟨S', r⟩ := a
          obtain ⟨S2', r2⟩ := b
          simp only at hr hS'
          subst hr
          simp only [bind, Outcome.bind]
          obtain ⟨inv', hsub, _⟩ := stvStep_inv cfg init q ω _ S S' prev r _ hi h1.sub h1.inv e1
          obtain ⟨inv2', hsub2, _⟩ := stvStep_inv cfg init' q ω _ S2 S2' prev r _ hi' h2.sub h2.inv e2
          refine ih S' S2' r _ _ hS' (by simp [hacc]) ?_ ?_
          · exact ⟨by simpa using inv', stvStep_linked cfg init q ω _ S S' prev r e1,
              stvStep_nonneg cfg init q ω _ S S' prev r _ hT hq h1.inv h1.linked h1.nonneg e1,
              fun c hc => h1.sub c (hsub c hc)⟩
          · exact ⟨by simpa using inv2', stvStep_linked cfg init' q ω _ S2 S2' prev r e2,
              stvStep_nonneg cfg init' q ω _ S2 S2' prev r _ hT hq h2.inv h2.linked h2.nonneg e2,
              fun c hc => h2.sub c (hsub2 c hc)⟩
        | raised e => rw [e1, e2] at hstep; exact absurd hstep (by simp [RelStep])
        | oracleMismatch => rw [e1, e2] at hstep; exact absurd hstep (by simp [RelStep])
        | outOfFuel => rw [e1, e2] at hstep; exact absurd hstep (by simp [RelStep])
      | raised e =>
        cases e2 : stvStep cfg init' q ω (prev.round + 1) S2 prev with
        | raised e' => rw [e1, e2] at hstep; simpa [bind, Outcome.bind, RelTrace, RelStep] using hstep
        | ok b => rw [e1, e2] at hstep; exact absurd hstep (by simp [RelStep])
        | oracleMismatch => rw [e1, e2] at hstep; exact absurd hstep (by simp [RelStep])
        | outOfFuel => rw [e1, e2] at hstep; exact absurd hstep (by simp [RelStep])
      | oracleMismatch =>
        cases e2 : stvStep cfg init' q ω (prev.round + 1) S2 prev with
        | oracleMismatch => simp [bind, Outcome.bind, RelTrace]
        | ok b => rw [e1, e2] at hstep; exact absurd hstep (by simp [RelStep])
        | raised e => rw [e1, e2] at hstep; exact absurd hstep (by simp [RelStep])
        | outOfFuel => rw [e1, e2] at hstep; exact absurd hstep (by simp [RelStep])
      | outOfFuel =>
        cases e2 : stvStep cfg init' q ω (prev.round + 1) S2 prev with
        | outOfFuel => simp [bind, Outcome.bind, RelTrace]
        | ok b => rw [e1, e2] at hstep; exact absurd hstep (by simp [RelStep])
        | raised e => rw [e1, e2] at hstep; exact absurd hstep (by simp [RelStep])
        | oracleMismatch => rw [e1, e2] at hstep; exact absurd hstep (by simp [RelStep])

theorem runInv_init (cfg : STVCfg) (p : Profile) (sc0 : List (Cand × Rat)) (hc : p.cands.Nodup)
    (hw : ∀ b ∈ p.ballots, 0 < b.weight) (hsc : sc0 = tallies (stvInitState p).bs p.cands) :
    RunInv cfg p (stvInitState p) (initialState p.cands (some sc0))
      ([(initialState p.cands (some sc0), stvInitState p)].map (·.1)) := by
  subst hsc
  set sc0 := tallies (stvInitState p).bs p.cands with hsc0
  set st0 := initialState p.cands (some sc0) with hst0
  have hrem0 : st0.remaining.flatten.Perm p.cands := by
    have := scoreToRanking_perm sc0
    rw [hsc0, tallies_keys] at this
    simpa [hst0, initialState] using this
  refine ⟨⟨hc, hrem0, ?_, ?_, ?_, trivial⟩, ?_, ?_, fun c hc' => hc'⟩
  · simp [stvInitState, electedIn, hst0, initialState]
  · simp [stvInitState, electedIn, eliminatedIn, hst0, initialState]
  · simpa [electedIn, eliminatedIn, hst0, initialState] using hrem0
  · exact ⟨by simp [hst0, initialState, hsc0, stvInitState], by simp [hst0, initialState]⟩
  · intro b hb
    simp only [stvInitState, List.mem_map] at hb
    obtain ⟨b0, hb0, rfl⟩ := hb
    exact le_of_lt (hw b0 hb0)

/-- **STV with the fractional transfer does not depend on how the ballots are listed — every mode and
every tiebreak.** Two profiles of untied ranked ballots with positive weights over the same candidates
that give every ranking the same total weight (one reorders, splits or merges the other's ballots)
have, under the same oracle, the same threshold and exactly the same rounds, or fail in the same way:
simultaneous or one-by-one election, tiebreak `None`, `random`, `borda` or `first_place`. -/
theorem C08_stv_representation_invariant_fractional (cfg : STVCfg) (p p' : Profile) (ω : STVOracle)
    (hf : cfg.transfer = .fractional) (hc : p.cands = p'.cands) (hcn : p.cands.Nodup)
    (hq : 0 < threshold cfg.quota cfg.m p.total)
    (hle : LinEq (stvInitState p).bs (stvInitState p').bs)
    (hw : ∀ b ∈ p.ballots, 0 < b.weight) (hw' : ∀ b ∈ p'.ballots, 0 < b.weight)
    (hne : ∀ b ∈ p.ballots, b.ranking ≠ []) (hsingle : ∀ b ∈ p.ballots, ∀ s ∈ b.ranking, s.length = 1)
    (hcast : ∀ b ∈ p.ballots, ∀ c ∈ b.ranking.flatten, c ∈ p.cands)
    (hne' : ∀ b ∈ p'.ballots, b.ranking ≠ []) (hsingle' : ∀ b ∈ p'.ballots, ∀ s ∈ b.ranking, s.length = 1)
    (hcast' : ∀ b ∈ p'.ballots, ∀ c ∈ b.ranking.flatten, c ∈ p'.cands) :
    RelResult (stvRun cfg p ω) (stvRun cfg p' ω) := by
  refine stv_invariant_of_loop cfg p p' ω hc ?_ hle hne hsingle hcast hne' hsingle' hcast'
  intro hinit
  have hnr : cfg.transfer ≠ .random := by rw [hf]; decide
  have hT := goodTransfers_fractional cfg hf
  have hS0 : SameCount (stvInitState p) (stvInitState p') := ⟨by simp [stvInitState, hc], rfl, hle⟩
  have hsc : tallies (stvInitState p').bs p'.cands = tallies (stvInitState p).bs p.cands := by
    rw [← hc]; exact (hle.tallies p.cands).symm
  have r1 := runInv_init cfg p _ hcn hw hsc
  have r2 := runInv_init cfg p' (tallies (stvInitState p').bs p'.cands) (hc ▸ hcn) hw' rfl
  have e : ∀ sc, initialState p'.cands sc = initialState p.cands sc := by intro sc; rw [hc]
  simp only [e] at r2
  exact stvLoop_lineq_inv cfg p p' _ ω hnr hT hq hcn (hc ▸ hcn) hinit _ _ _ _ _ _ hS0 (by simp) r1 r2

end VK
