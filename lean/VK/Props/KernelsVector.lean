/-
  VK.Props.KernelsVector — the two tests of `validate_score_vector`, regenerated from /repo's current source,
  are the ones the model's `validVector` (C04, C20) unfolds to.
-/
import VK.Model.Generated.Vector
import VK.Model.Utils
import Mathlib.Algebra.Order.Field.Rat

namespace VK

theorem kernel_validVector_one (x : Rat) : validVector [x] = !Generated.negEntry x := by
  unfold Generated.negEntry
  simp only [validVector]
  by_cases h : 0 ≤ x
  · simp [h, not_lt.2 h]
  · simp [h, lt_of_not_ge h]

/-- a vector is accepted exactly when no entry is negative and no entry exceeds the one before it -/
theorem kernel_validVector_step (x y : Rat) (rest : List Rat) :
    validVector (x :: y :: rest) = (!Generated.negEntry x && !Generated.increasing x y && validVector (y :: rest)) := by
  unfold Generated.negEntry Generated.increasing
  simp only [validVector]
  have h1 : (!decide (x < (0 : Rat))) = decide (0 ≤ x) := by
    by_cases h : 0 ≤ x
    · simp [h, not_lt.2 h]
    · simp [h, lt_of_not_ge h]
  have h2 : (!decide (y > x)) = decide (y ≤ x) := by
    by_cases h : y ≤ x
    · simp [h, not_lt.2 h]
    · simp [h, lt_of_not_ge h]
  rw [h1, h2]

end VK
