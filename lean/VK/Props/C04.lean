/-
  Property C04 — positional scores follow the definition exactly.
  Only property theorems and their non-vacuity examples live here; helpers are in VK.Lemmas.*.
-/
import VK.Lemmas.Sum
import Mathlib.Tactic.FieldSimp
import Mathlib.Data.List.Nodup

namespace VK

/-- Points handed to the positions of a ranking, counted once per member, add up to the slice of
the vector those positions span — this is where exact division matters. -/
theorem C04_alloc_total (v : List Rat) (r : Ranking) (i : Nat) (h : ∀ s ∈ r, s ≠ []) :
    rsum ((positionAlloc v i r).map (fun sa => (sa.1.length : Rat) * sa.2)) =
      rsum ((v.drop i).take r.flatten.length) := by
  induction r generalizing i with
  | nil => simp [positionAlloc]
  | cons s rest ih =>
    have hs : s ≠ [] := h s (by simp)
    have hlen : (s.length : Rat) ≠ 0 := by
      have : s.length ≠ 0 := by simpa [List.length_eq_zero_iff] using hs
      exact_mod_cast this
    have ih' := ih (i + s.length) (fun t ht => h t (by simp [ht]))
    simp only [positionAlloc, List.map_cons, rsum_cons, List.flatten_cons, List.length_append]
    rw [ih', mul_div_cancel₀ _ hlen]
    rw [List.take_add, rsum_append, List.drop_drop]

theorem positionAlloc_fst (v : List Rat) (r : Ranking) (i : Nat) :
    (positionAlloc v i r).map (·.1) = r := by
  induction r generalizing i with
  | nil => simp [positionAlloc]
  | cons s rest ih => simp [positionAlloc, ih]

/-- **Each ballot hands out exactly the vector total.** For a ranking without repeated candidates
whose positions are non-empty and drawn from `cands`, the points of all candidates add up to the
sum of the first `#listed` vector entries (for a completed ballot: the first `n` entries). -/
theorem C04_ballot_total (v : List Rat) (r : Ranking) (cands : List Cand)
    (hc : cands.Nodup) (hr : r.flatten.Nodup) (hsub : ∀ c ∈ r.flatten, c ∈ cands)
    (hne : ∀ s ∈ r, s ≠ []) :
    rsum (cands.map (fun c => ballotPoints v r c)) = rsum (v.take r.flatten.length) := by
  have key : rsum (cands.map (fun c => ballotPoints v r c)) =
      rsum ((positionAlloc v 0 r).map (fun sa => (sa.1.length : Rat) * sa.2)) := by
    unfold ballotPoints
    simp only [rsum_filter_map_eq_ite]
    rw [rsum_comm]
    congr 1
    apply List.map_congr_left
    intro sa hsa
    rw [rsum_map_ite_const]
    have hmem : sa.1 ∈ r := by
      have : sa.1 ∈ (positionAlloc v 0 r).map (·.1) := List.mem_map_of_mem hsa
      rwa [positionAlloc_fst] at this
    have hnd : sa.1.Nodup := (List.nodup_flatten.1 hr).1 sa.1 hmem
    have hs : ∀ c ∈ sa.1, c ∈ cands := fun c hcs => hsub c (List.mem_flatten.2 ⟨sa.1, hmem, hcs⟩)
    rw [filter_contains_length cands sa.1 hc hnd hs]
  rw [key, C04_alloc_total v r 0 hne]
  simp

/-- non-vacuity: a completed ballot with a three-way tie and the Borda vector -/
example : rsum ([0, 1, 2, 3].map (fun c => ballotPoints [4, 3, 2, 1] [[3], [0, 1, 2]] c)) = 10 := by
  rw [C04_ballot_total _ _ _ (by decide) (by decide) (by decide) (by decide)]; decide +kernel

/-- **Scores are the weight-summed declarative points.** Whenever `score_profile_from_rankings`
returns, the score of every candidate is the sum over the *original* ballots (not the condensed
ones the code iterates over) of the points the completed ballot gives it, times the weight. -/
theorem C04_score_spec (p : Profile) (v : List Rat) (sc : List (Cand × Rat))
    (h : scoreFromRankings p v = .ok sc) :
    sc = p.cands.map (fun c => (c, rsum (p.ballots.map (fun b =>
      ballotPoints (padVector v p.cands.length) (addMissingBallot p.cands b).ranking c * b.weight)))) := by
  unfold scoreFromRankings at h
  split at h
  · cases h
  · unfold addMissing at h
    split at h
    · cases h
    · simp only [Outcome.pure_eq, bind, Outcome.bind] at h
      injection h with h
      rw [← h]
      apply List.map_congr_left
      intro c _
      congr 1
      have := sum_condense (fun k => ballotPoints (padVector v p.cands.length) k.1 c)
        (p.ballots.map (addMissingBallot p.cands))
      simp only [Ballot.content, List.map_map, Function.comp_def] at this
      simpa [addMissingBallot] using this
