/-
  Property C02 — each STV/IRV/SequentialRCV round is a legal step of the documented count.
-/
import VK.Model.STV
import VK.Lemmas.Sum
import VK.Lemmas.Legal
import Mathlib.Data.Rat.Floor
import Mathlib.Algebra.Order.Floor.Ring

namespace VK

/-- The Droop threshold is `⌊N/(m+1)⌋ + 1`. -/
theorem C02_threshold_droop (m : Nat) (N : Rat) :
    threshold .droop m N = ⌊N / ((m : Rat) + 1)⌋ + 1 := by
  show ⌊N / ((m : Rat) + 1) + 1⌋ = _
  exact Int.floor_add_one _

/-- The Hare threshold is `⌊N/m⌋`. -/
theorem C02_threshold_hare (m : Nat) (N : Rat) : threshold .hare m N = ⌊N / (m : Rat)⌋ := rfl

/-- The defining Droop inequalities: strictly more than `N/(m+1)`, at most one more. -/
theorem C02_droop_bounds (m : Nat) (N : Rat) :
    N / ((m : Rat) + 1) < (threshold .droop m N : Rat) ∧
    (threshold .droop m N : Rat) ≤ N / ((m : Rat) + 1) + 1 := by
  rw [C02_threshold_droop]
  constructor
  · push_cast; exact Int.lt_floor_add_one _
  · push_cast; have := Int.floor_le (N / ((m : Rat) + 1)); linarith

/-- The threshold reported by a run is the documented function of the *initial* total weight. -/
theorem C02_threshold_of_run (cfg : STVCfg) (p : Profile) (ω : STVOracle) (r : STVResult)
    (h : stvRun cfg p ω = .ok r) : r.threshold = threshold cfg.quota cfg.m p.total := by
  unfold stvRun at h
  split at h; · cases h
  split at h; · cases h
  split at h; · cases h
  cases h0 : firstPlaceVotes p with
  | ok sc0 =>
    simp only [h0, bind, Outcome.bind] at h
    split at h
    · simp only [pure] at h; injection h with h; rw [← h]
    all_goals cases h
  | raised e => simp [h0, bind, Outcome.bind] at h
  | oracleMismatch => simp [h0, bind, Outcome.bind] at h
  | outOfFuel => simp [h0, bind, Outcome.bind] at h

/-! ### every round is a legal step of the documented count -/

theorem applyTransfers_full (cfg : STVCfg) (hop : List Cand) (q : Int) (sample : Cand → List (List Cand × Nat))
    (ws : List Cand) (bs bs' : List PBallot) (hf : cfg.transfer = .full)
    (h : applyTransfers cfg hop q sample ws bs = .ok bs') : bs' = bs := by
  induction ws generalizing bs with
  | nil => simp only [applyTransfers] at h; injection h with h; exact h.symm
  | cons w rest ih =>
    simp only [applyTransfers] at h
    cases h1 : applyTransfer cfg hop q (sample w) bs w with
    | ok bs1 =>
      simp only [h1, bind, Outcome.bind] at h
      rw [ih bs1 h, applyTransfer_full cfg hop q _ bs bs1 w hf h1]
    | raised e => simp [h1, bind, Outcome.bind] at h
    | oracleMismatch => simp [h1, bind, Outcome.bind] at h
    | outOfFuel => simp [h1, bind, Outcome.bind] at h

/-- the test "somebody is at the threshold" read on the count state -/
theorem above_iff (S : CState) (prev : RoundState) (q : Int) (hl : Linked S prev) :
    (prev.scores.filter (fun cs => decide ((q : Rat) ≤ cs.2))).isEmpty = false ↔
      ∃ c ∈ S.hopeful, (q : Rat) ≤ tally S.bs S.hopeful c := by
  rw [hl.1]
  constructor
  · intro h
    cases hf : (tallies S.bs S.hopeful).filter (fun cs => decide ((q : Rat) ≤ cs.2)) with
    | nil => rw [hf] at h; simp at h
    | cons cs _ =>
      have hm : cs ∈ (tallies S.bs S.hopeful).filter (fun cs => decide ((q : Rat) ≤ cs.2)) := by rw [hf]; simp
      obtain ⟨hmem, hq⟩ := List.mem_filter.1 hm
      unfold tallies at hmem
      obtain ⟨c, hc, rfl⟩ := List.mem_map.1 hmem
      exact ⟨c, hc, by simpa using hq⟩
  · rintro ⟨c, hc, hq⟩
    have : (c, tally S.bs S.hopeful c) ∈ (tallies S.bs S.hopeful).filter (fun cs => decide ((q : Rat) ≤ cs.2)) :=
      List.mem_filter.2 ⟨List.mem_map.2 ⟨c, hc, rfl⟩, by simpa using hq⟩
    cases hf : (tallies S.bs S.hopeful).filter (fun cs => decide ((q : Rat) ≤ cs.2)) with
    | nil => rw [hf] at this; cases this
    | cons _ _ => rfl

/-- in one-by-one mode the elected candidate has a maximal tally -/
theorem onebyone_winner_max (cfg : STVCfg) (q : Int) (ω : STVOracle) (rnd : Nat) (S : CState) (prev : RoundState)
    (g : Ranking) (tbs : List (List Cand × Ranking)) (hl : Linked S prev) (hn : S.hopeful.Nodup)
    (hsim : cfg.simultaneous = false)
    (h : electChoice cfg q ω rnd S prev = .ok (g, tbs)) :
    g.flatten.length = 1 ∧ ∀ w ∈ g.flatten, ∀ c ∈ S.hopeful, tally S.bs S.hopeful c ≤ tally S.bs S.hopeful w := by
  have hk : (prev.scores.map (·.1)).Nodup := by rw [hl.1, tallies_keys]; exact hn
  have hkeys : prev.scores.map (·.1) = S.hopeful := by rw [hl.1, tallies_keys]
  have hperm : prev.remaining.flatten.Perm S.hopeful := by
    rw [hl.2]; have := scoreToRanking_perm prev.scores; rwa [hkeys] at this
  unfold electChoice at h
  simp only [hsim, Bool.false_eq_true, if_false] at h
  cases he : electFromRanking (ω.pri rnd) prev.remaining 1 (some (currentProfile S)) cfg.tiebreak with
  | ok r =>
    simp only [he, bind, Outcome.bind, pure, Outcome.ok.injEq, Prod.mk.injEq] at h
    obtain ⟨h1, _⟩ := h
    subst h1
    have hrn : prev.remaining.flatten.Nodup := hperm.nodup_iff.2 hn
    have hne : ∀ x ∈ prev.remaining, x ≠ [] := by rw [hl.2]; exact scoreToRanking_groups_nonempty _
    have hnd : ∀ x ∈ prev.remaining, x.Nodup := fun x hx => (List.nodup_flatten.1 hrn).1 x hx
    have hsub : ∀ p, some (currentProfile S) = some p → p.cands.Nodup ∧ ∀ x ∈ prev.remaining, ∀ c ∈ x, c ∈ p.cands := by
      intro p hp
      injection hp with hp; subst hp
      exact ⟨hn, fun x hx c hc => hperm.mem_iff.1 (List.mem_flatten.2 ⟨x, hx, hc⟩)⟩
    refine ⟨(electFromRanking_count _ _ _ _ _ r hnd hsub he).1, ?_⟩
    obtain ⟨g1, rest, hrank, hw⟩ := elect_one_from_first _ _ _ _ r hne hnd hsub he
    rw [hl.2] at hrank
    obtain ⟨v1, hg1, hmax⟩ := first_group_max prev.scores g1 rest hrank hk
    intro w hwm c hc
    obtain ⟨hpair, hlook⟩ := hg1 w (hw w hwm)
    have hwh : w ∈ S.hopeful := by
      have : w ∈ prev.scores.map (·.1) := List.mem_map.2 ⟨(w, v1), hpair, rfl⟩
      rwa [hkeys] at this
    have e1 : tally S.bs S.hopeful w = v1 := by
      rw [← lookupScore_tallies _ _ _ hwh, ← hl.1]; exact hlook
    have hcp : (c, tally S.bs S.hopeful c) ∈ prev.scores := by
      rw [hl.1]; exact List.mem_map.2 ⟨c, hc, rfl⟩
    rw [e1]; exact hmax _ hcp
  | raised e => simp [he, bind, Outcome.bind] at h
  | oracleMismatch => simp [he, bind, Outcome.bind] at h
  | outOfFuel => simp [he, bind, Outcome.bind] at h

/-- **C02 — each round is a legal step of the documented count** (every quota, mode, tiebreak and
oracle). For the round `r` recorded by a successful step from the count state `S`:

* the tallies and candidate order recorded for the round are the first-place weights of the
  resulting ballots (`Linked S' r`);
* if some tally is at or above the threshold nobody is eliminated, every elected candidate is a
  hopeful candidate at or above the threshold — in simultaneous mode exactly those, in one-by-one
  mode a single candidate of maximal tally — the hopeful set loses exactly the winners, and every
  ballot counted for a winner `w` continues at `weight · (tally w − q) / tally w` (fractional rule;
  unchanged for SequentialRCV's full-weight rule) while all other ballots are untouched;
* otherwise, if the remaining candidates equal the unfilled seats they are all elected and the
  count is over; and otherwise nobody is elected, exactly one candidate is eliminated, it has a
  minimal tally, and no ballot weight changes. -/
theorem C02_legal_step (cfg : STVCfg) (init : Profile) (q : Int) (ω : STVOracle) (rnd : Nat)
    (S S' : CState) (prev r : RoundState) (recs : List RoundState)
    (hi : init.cands.Nodup) (hcs : ∀ c ∈ S.hopeful, c ∈ init.cands)
    (inv : StvInv init.cands S prev recs) (hl : Linked S prev)
    (h : stvStep cfg init q ω rnd S prev = .ok (S', r)) :
    Linked S' r ∧
    ((∃ c ∈ S.hopeful, (q : Rat) ≤ tally S.bs S.hopeful c) →
        r.eliminated = [] ∧
        (∀ c ∈ r.elected.flatten, c ∈ S.hopeful ∧ (q : Rat) ≤ tally S.bs S.hopeful c) ∧
        (cfg.simultaneous = true →
          ∀ c, c ∈ r.elected.flatten ↔ (c ∈ S.hopeful ∧ (q : Rat) ≤ tally S.bs S.hopeful c)) ∧
        (cfg.simultaneous = false → r.elected.flatten.length = 1 ∧
          ∀ w ∈ r.elected.flatten, ∀ c ∈ S.hopeful, tally S.bs S.hopeful c ≤ tally S.bs S.hopeful w) ∧
        S'.hopeful = S.hopeful.filter (fun c => !r.elected.flatten.contains c) ∧
        (cfg.transfer = .fractional →
          S'.bs = scaleAll S.hopeful q (fun w => tally S.bs S.hopeful w) r.elected.flatten S.bs) ∧
        (cfg.transfer = .full → S'.bs = S.bs)) ∧
    ((∀ c ∈ S.hopeful, tally S.bs S.hopeful c < (q : Rat)) →
        ((S.hopeful.length = cfg.m - S.nElected ∧ S.nElected ≤ cfg.m) →
          r.elected = prev.remaining ∧ r.eliminated = [] ∧ S'.hopeful = []) ∧
        (¬ (S.hopeful.length = cfg.m - S.nElected ∧ S.nElected ≤ cfg.m) →
          r.elected = [] ∧ S'.bs = S.bs ∧
          ∃ c, r.eliminated = [[c]] ∧ c ∈ S.hopeful ∧ S'.hopeful = S.hopeful.filter (fun x => x != c) ∧
            ∀ d ∈ S.hopeful, tally S.bs S.hopeful c ≤ tally S.bs S.hopeful d)) := by
  refine ⟨stvStep_linked cfg init q ω rnd S S' prev r h, ?_, ?_⟩
  · intro hex
    have habove := (above_iff S prev q hl).2 hex
    rcases stvStep_cases cfg init q ω rnd S S' prev r h with
      ⟨g, tbs, bs', _, he, ha, hSb, hSh, _, hre, hrx, _⟩ | ⟨hab, _⟩ | ⟨hab, _⟩
    · obtain ⟨hWn, hWs⟩ := electChoice_spec cfg q ω rnd S prev g tbs inv.hop_nodup inv.rem he
      have hge := electChoice_ge cfg q ω rnd S prev g tbs hl inv.hop_nodup habove he
      rw [hre]
      refine ⟨hrx, fun c hc => ⟨hWs c hc, hge c hc⟩, ?_, ?_, hSh, ?_, ?_⟩
      · intro hsim c
        have : g = prev.remaining.takeWhile (fun g =>
            match g with
            | [] => false
            | c :: _ => decide ((q : Rat) ≤ lookupScore prev.scores c)) := by
          unfold electChoice at he
          simp only [hsim, if_true, pure, Outcome.ok.injEq, Prod.mk.injEq] at he
          exact he.1.symm
        rw [this]
        exact simultaneous_winners_exact S prev q hl inv.hop_nodup c
      · intro hsim
        exact onebyone_winner_max cfg q ω rnd S prev g tbs hl inv.hop_nodup hsim he
      · intro hf
        rw [hSb]
        exact applyTransfers_fractional_pointwise cfg S.hopeful q _ hf g.flatten S.bs bs' hWn ha
      · intro hf
        rw [hSb]
        exact applyTransfers_full cfg S.hopeful q _ g.flatten S.bs bs' hf ha
    · rw [hab] at habove; cases habove
    · rw [hab] at habove; cases habove
  · intro hbelow
    have hnot : ¬ ∃ c ∈ S.hopeful, (q : Rat) ≤ tally S.bs S.hopeful c := by
      rintro ⟨c, hc, hq⟩; exact absurd (hbelow c hc) (not_lt.2 hq)
    rcases stvStep_cases cfg init q ω rnd S S' prev r h with
      ⟨g, tbs, bs', habove, _⟩ | ⟨_, hSh, _, _, hlen, hle, hre, hrx, _⟩ |
      ⟨_, lowest, c, tbs, hlast, hlc, hSb, hSh, _, hre, hrx⟩
    · exact absurd ((above_iff S prev q hl).1 habove) hnot
    · exact ⟨fun _ => ⟨hre, hrx, hSh⟩, fun hn => absurd ⟨hlen, hle⟩ hn⟩
    · have hcond : ¬ (S.hopeful.length = cfg.m - S.nElected ∧ S.nElected ≤ cfg.m) := by
        -- the elimination branch is only reached when the fill-the-seats test fails
        intro hc
        unfold stvStep at h
        simp only at h
        split at h
        · rename_i hab
          have : (prev.scores.filter (fun cs => decide ((q : Rat) ≤ cs.2))).isEmpty = false := by simpa using hab
          exact absurd ((above_iff S prev q hl).1 this) hnot
        · split at h
          · rename_i hcnd
            simp only [pure, Outcome.ok.injEq, Prod.mk.injEq] at h
            -- then the round would elect, not eliminate
            have : r.eliminated = [] := by rw [← h.2]
            rw [hrx] at this; cases this
          · rename_i hcnd
            apply hcnd
            simp only [Bool.and_eq_true, decide_eq_true_eq]
            exact ⟨hc.2, hc.1⟩
      refine ⟨fun hc => absurd hc hcond, fun _ => ⟨hre, hSb, c, hrx, ?_, hSh, ?_⟩⟩
      · have hrn : prev.remaining.flatten.Nodup := inv.rem.nodup_iff.2 inv.hop_nodup
        have hlm : lowest ∈ prev.remaining := List.mem_of_getLast? hlast
        have hln : lowest.Nodup := (List.nodup_flatten.1 hrn).1 lowest hlm
        have hlh : ∀ x ∈ lowest, x ∈ S.hopeful := fun x hx =>
          inv.rem.mem_iff.1 (List.mem_flatten.2 ⟨lowest, hlm, hx⟩)
        exact hlh c (loserChoice_mem init ω rnd lowest c tbs hln hi (fun x hx => hcs x (hlh x hx)) hlc)
      · have hk : (prev.scores.map (·.1)).Nodup := by rw [hl.1, tallies_keys]; exact inv.hop_nodup
        have hrn : prev.remaining.flatten.Nodup := inv.rem.nodup_iff.2 inv.hop_nodup
        have hlm : lowest ∈ prev.remaining := List.mem_of_getLast? hlast
        have hln : lowest.Nodup := (List.nodup_flatten.1 hrn).1 lowest hlm
        have hlh : ∀ x ∈ lowest, x ∈ S.hopeful := fun x hx =>
          inv.rem.mem_iff.1 (List.mem_flatten.2 ⟨lowest, hlm, hx⟩)
        have hcl : c ∈ lowest := loserChoice_mem init ω rnd lowest c tbs hln hi (fun x hx => hcs x (hlh x hx)) hlc
        have hlast' : (scoreToRanking prev.scores).getLast? = some lowest := by rw [← hl.2]; exact hlast
        obtain ⟨v0, hv0, hmin⟩ := last_group_min prev.scores lowest hlast' hk
        intro d hd
        have e1 : tally S.bs S.hopeful c = v0 := by
          rw [← lookupScore_tallies _ _ _ (hlh c hcl), ← hl.1]; exact (hv0 c hcl).2
        have hdp : (d, tally S.bs S.hopeful d) ∈ prev.scores := by
          rw [hl.1]; exact List.mem_map.2 ⟨d, hd, rfl⟩
        rw [e1]; exact hmin _ hdp

/-- non-vacuity: 10 votes, 2 seats: Droop 4, Hare 5 -/
example : threshold .droop 2 10 = 4 ∧ threshold .hare 2 10 = 5 := by decide +kernel

end VK
