/-
  Property C02 — each STV/IRV/SequentialRCV round is a legal step of the documented count.
-/
import VK.Model.STV
import VK.Lemmas.Sum
import Mathlib.Data.Rat.Floor
import Mathlib.Algebra.Order.Floor.Ring

namespace VK

/-- The Droop threshold is `⌊N/(m+1)⌋ + 1`. -/
theorem C02_threshold_droop (m : Nat) (N : Rat) :
    threshold .droop m N = ⌊N / ((m : Rat) + 1)⌋ + 1 := by
  show ⌊N / ((m : Rat) + 1) + 1⌋ = _
  exact Int.floor_add_one _

/-- The Hare threshold is `⌊N/m⌋`. -/
theorem C02_threshold_hare (m : Nat) (N : Rat) : threshold .hare m N = ⌊N / (m : Rat)⌋ := rfl

/-- The defining Droop inequalities: strictly more than `N/(m+1)`, at most one more. -/
theorem C02_droop_bounds (m : Nat) (N : Rat) :
    N / ((m : Rat) + 1) < (threshold .droop m N : Rat) ∧
    (threshold .droop m N : Rat) ≤ N / ((m : Rat) + 1) + 1 := by
  rw [C02_threshold_droop]
  constructor
  · push_cast; exact Int.lt_floor_add_one _
  · push_cast; have := Int.floor_le (N / ((m : Rat) + 1)); linarith

/-- The threshold reported by a run is the documented function of the *initial* total weight. -/
theorem C02_threshold_of_run (cfg : STVCfg) (p : Profile) (ω : STVOracle) (r : STVResult)
    (h : stvRun cfg p ω = .ok r) : r.threshold = threshold cfg.quota cfg.m p.total := by
  unfold stvRun at h
  split at h; · cases h
  split at h; · cases h
  split at h; · cases h
  cases h0 : firstPlaceVotes p with
  | ok sc0 =>
    simp only [h0, bind, Outcome.bind] at h
    split at h
    · simp only [pure] at h; injection h with h; rw [← h]
    all_goals cases h
  | raised e => simp [h0, bind, Outcome.bind] at h
  | oracleMismatch => simp [h0, bind, Outcome.bind] at h
  | outOfFuel => simp [h0, bind, Outcome.bind] at h

/-- non-vacuity: 10 votes, 2 seats: Droop 4, Hare 5 -/
example : threshold .droop 2 10 = 4 ∧ threshold .hare 2 10 = 5 := by decide +kernel

end VK
