/-
  VK.Props.C08CandOrderSTV — C08, "listing the candidates in a different order", STV family (fractional and
  full-weight transfer: STV, IRV, SequentialRCV): the same ballots counted with the declared candidates listed in
  another order give the same threshold and the same rounds, each group and score dictionary re-listed in the new
  order and nothing else changed; the same exception otherwise.
-/
import VK.Lemmas.ReorderSTV
import VK.Props.C08CandOrder
namespace VK

def reTrace (c' : List Cand) (tr : List (RoundState × CState)) : List (RoundState × CState) :=
  tr.map (fun x => (reRS c' x.1, reCS c' x.2))

def reResult (c' : List Cand) (res : STVResult) : STVResult :=
  { threshold := res.threshold, trace := reTrace c' res.trace }

theorem reInv_step (c' : List Cand) (cfg : STVCfg) (init : Profile) (q : Int) (ω : STVOracle) (rnd : Nat)
    (S S' : CState) (prev r : RoundState) (hI : ReInv c' S prev)
    (h : stvStep cfg init q ω rnd S prev = .ok (S', r)) : ReInv c' S' r := by
  have hl := stvStep_linked cfg init q ω rnd S S' prev r h
  have hhop : S'.hopeful.Nodup ∧ SubOf c' S'.hopeful := by
    rcases stvStep_cases cfg init q ω rnd S S' prev r h with
      ⟨g, tbs, bs', _, _, _, _, hh, _⟩ | ⟨_, hh, _⟩ | ⟨_, lowest, c, tbs, _, _, _, hh, _⟩
    · rw [hh]; exact ⟨hI.nodup.filter _, fun x hx => hI.sub x (List.mem_filter.mp hx).1⟩
    · rw [hh]; exact ⟨List.nodup_nil, fun x hx => by cases hx⟩
    · rw [hh]; exact ⟨hI.nodup.filter _, fun x hx => hI.sub x (List.mem_filter.mp hx).1⟩
  exact ⟨hhop.1, hhop.2, by rw [hl.1, tallies_keys], hl.2⟩

theorem stvLoop_re (c' : List Cand) (hN : c'.Nodup) (cfg : STVCfg) (hnr : cfg.transfer ≠ .random)
    (init : Profile) (hperm : c'.Perm init.cands) (hNi : init.cands.Nodup) (q : Int) (ω : STVOracle)
    (fuel : Nat) (S : CState) (prev : RoundState) (hI : ReInv c' S prev) (acc : List (RoundState × CState)) :
    stvLoop cfg (withCands init c') q ω fuel (reCS c' S) (reRS c' prev) (reTrace c' acc) =
      (stvLoop cfg init q ω fuel S prev acc).map (reTrace c') := by
  induction fuel generalizing S prev acc with
  | zero =>
    simp only [stvLoop]
    have : (reCS c' S).nElected = S.nElected := rfl
    rw [this]
    split
    · simp [reTrace]
    · rfl
  | succ n ih =>
    simp only [stvLoop]
    have hn : (reCS c' S).nElected = S.nElected := rfl
    have hr : (reRS c' prev).round = prev.round := rfl
    rw [hn, hr]
    split
    · simp [reTrace]
    · rw [stvStep_re c' hN cfg hnr init hperm hNi q ω _ S prev hI]
      cases hst : stvStep cfg init q ω (prev.round + 1) S prev with
      | ok x =>
        obtain ⟨S', r⟩ := x
        simp only [Outcome.map_ok, Outcome.bind_ok, reStep]
        exact ih S' r (reInv_step c' cfg init q ω _ S S' prev r hI hst) ((r, S') :: acc)
      | raised e => rfl
      | oracleMismatch => rfl
      | outOfFuel => rfl

/-- **C08 (order of listing, STV family with the fractional or full-weight transfer).** -/
theorem C08_stv_cand_order (cfg : STVCfg) (hnr : cfg.transfer ≠ .random) (p : Profile) (c' : List Cand)
    (hperm : c'.Perm p.cands) (hN : p.cands.Nodup) (ω : STVOracle) (quotaOk : Bool) :
    stvRun cfg (withCands p c') ω quotaOk = (stvRun cfg p ω quotaOk).map (reResult c') := by
  have hN' : c'.Nodup := hperm.nodup_iff.mpr hN
  have hsub : SubOf c' p.cands := fun x hx => hperm.symm.subset hx
  unfold stvRun
  have h1 : stvValidProfile (withCands p c') = stvValidProfile p := rfl
  have h2 : (withCands p c').cands.length = p.cands.length := hperm.length_eq
  have h3 : (withCands p c').total = p.total := rfl
  rw [h1, h2, h3]
  split
  · rfl
  · split
    · rfl
    · split
      · rfl
      · rw [firstPlaceVotes_re p c' hperm]
        cases hsc : firstPlaceVotes p with
        | ok sc0 =>
          simp only [Outcome.map_ok, Outcome.bind_ok]
          have hk0 : sc0.map (·.1) = p.cands := scoreFromRankings_keys p _ sc0 hsc
          have hk0n : (sc0.map (·.1)).Nodup := by rw [hk0]; exact hN
          have hk0s : SubOf c' (sc0.map (·.1)) := by rw [hk0]; exact hsub
          have hst0 : initialState (withCands p c').cands (some (reSc c' sc0)) =
              reRS c' (initialState p.cands (some sc0)) := by
            simp only [initialState, reRS, scoreToRanking_re c' sc0 hk0n hk0s, reR, List.map_nil]
          have hS0 : stvInitState (withCands p c') = reCS c' (stvInitState p) := by
            unfold stvInitState reCS withCands
            simp only
            congr 1
            unfold reG
            symm
            apply List.filter_eq_self.mpr
            intro x hx; simpa using hperm.subset hx
          rw [hst0, hS0]
          have hI : ReInv c' (stvInitState p) (initialState p.cands (some sc0)) :=
            ⟨hN, hsub, hk0, rfl⟩
          have hacc : [(reRS c' (initialState p.cands (some sc0)), reCS c' (stvInitState p))] =
              reTrace c' [(initialState p.cands (some sc0), stvInitState p)] := rfl
          rw [hacc, stvLoop_re c' hN' cfg hnr p hperm hN _ ω _ _ _ hI]
          cases stvLoop cfg p (threshold cfg.quota cfg.m p.total) ω (p.cands.length + 2) (stvInitState p)
              (initialState p.cands (some sc0)) [(initialState p.cands (some sc0), stvInitState p)] with
          | ok tr => rfl
          | raised e => rfl
          | oracleMismatch => rfl
          | outOfFuel => rfl
        | raised e => rfl
        | oracleMismatch => rfl
        | outOfFuel => rfl

theorem C08_irv_cand_order (p : Profile) (c' : List Cand) (hperm : c'.Perm p.cands) (hN : p.cands.Nodup)
    (quota : Quota) (tb : Option TB) (ω : STVOracle) (quotaOk : Bool) :
    irvRun (withCands p c') quota tb ω quotaOk = (irvRun p quota tb ω quotaOk).map (reResult c') :=
  C08_stv_cand_order _ (by simp) p c' hperm hN ω quotaOk

theorem C08_seqrcv_cand_order (cfg : STVCfg) (p : Profile) (c' : List Cand) (hperm : c'.Perm p.cands)
    (hN : p.cands.Nodup) (ω : STVOracle) (quotaOk : Bool) :
    seqRCVRun cfg (withCands p c') ω quotaOk = (seqRCVRun cfg p ω quotaOk).map (reResult c') :=
  C08_stv_cand_order _ (by simp) p c' hperm hN ω quotaOk

/-- what the re-listing keeps: the members of every group and every dictionary entry -/
theorem reRS_same_sets (c' : List Cand) (s : RoundState)
    (hs : ∀ g ∈ s.remaining ++ s.elected ++ s.eliminated, SubOf c' g) :
    (reRS c' s).round = s.round ∧
    List.Forall₂ (fun g g' => ∀ x, x ∈ g' ↔ x ∈ g) s.remaining (reRS c' s).remaining ∧
    List.Forall₂ (fun g g' => ∀ x, x ∈ g' ↔ x ∈ g) s.elected (reRS c' s).elected ∧
    List.Forall₂ (fun g g' => ∀ x, x ∈ g' ↔ x ∈ g) s.eliminated (reRS c' s).eliminated := by
  have key : ∀ r : Ranking, (∀ g ∈ r, SubOf c' g) →
      List.Forall₂ (fun g g' => ∀ x, x ∈ g' ↔ x ∈ g) r (reR c' r) := by
    intro r hr
    induction r with
    | nil => exact List.Forall₂.nil
    | cons g rest ih =>
      exact List.Forall₂.cons (mem_reG_sub c' g (hr g List.mem_cons_self))
        (ih (fun x hx => hr x (List.mem_cons_of_mem _ hx)))
  refine ⟨rfl, key _ (fun g hg => hs g ?_), key _ (fun g hg => hs g ?_), key _ (fun g hg => hs g ?_)⟩
  · simp [hg]
  · simp [hg]
  · simp [hg]

/-- non-vacuity: three candidates listed as 2, 0, 1 instead of 0, 1, 2 -/
def orderDemo : Profile :=
  { ballots := [⟨[[0], [1]], 4, []⟩, ⟨[[1], [2]], 3, []⟩, ⟨[[2], [1]], 2, []⟩], cands := [0, 1, 2] }

example : (stvRun { m := 1 } orderDemo {}).isOk = true := by decide +kernel
example : stvRun { m := 1 } (withCands orderDemo [2, 0, 1]) {} =
    (stvRun { m := 1 } orderDemo {}).map (reResult [2, 0, 1]) :=
  C08_stv_cand_order _ (by simp) orderDemo [2, 0, 1] (by decide) (by decide) {} true

/-- The hypothesis `cfg.transfer ≠ .random` of `C08_stv_cand_order` cannot be dropped: two winners tied at the head
of a simultaneous round, one whose pile has a fractional weight (TypeError) and one with a surplus and no
transferable ballot (ValueError: sample larger than population) - the one listed first decides the exception. -/
def randomOrderWitness : Profile :=
  { ballots := [⟨[[0]], 7/2, []⟩, ⟨[[0], [2]], 1/2, []⟩, ⟨[[1]], 4, []⟩, ⟨[[2]], 1/2, []⟩], cands := [0, 1, 2] }

theorem C08_cand_order_random_transfer_differs :
    (stvRun { m := 2, transfer := .random } randomOrderWitness {}).map (fun r => r.states.length) = .raised .typeError ∧
    (stvRun { m := 2, transfer := .random } (withCands randomOrderWitness [1, 0, 2]) {}).map (fun r => r.states.length) =
      .raised .valueError := by
  constructor <;> decide +kernel

end VK
