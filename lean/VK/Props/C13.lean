/-
  Property C13 — composite and alias rules equal the composition they are documented to be.
  In the model the aliases are *defined* as the composition; the content of these statements is
  the correspondence check, which runs the implementation's own IRV / SNTV / SequentialRCV /
  TopTwo / Alaska classes against these definitions (and against separately constructed
  component elections of the implementation).
-/
import VK.Model.Rules

namespace VK

/-- IRV gives the same rounds as STV with one seat. -/
theorem C13_irv (p : Profile) (quota : Quota) (tb : Option TB) (ω : STVOracle) :
    irvRun p quota tb ω = stvRun { m := 1, quota := quota, tiebreak := tb } p ω := rfl

/-- SNTV is Plurality. -/
theorem C13_sntv (p : Profile) (m : Nat) (tb : Option TB) (pri : List Cand) :
    sntvRun p m tb pri = pluralityRun p m tb pri := rfl

/-- SequentialRCV is STV with the transfer that passes ballots on at full weight. -/
theorem C13_seqrcv (cfg : STVCfg) (p : Profile) (ω : STVOracle) :
    seqRCVRun cfg p ω = stvRun { cfg with transfer := .full } p ω := rfl

/-- **TopTwo** = Plurality for two finalists; every other candidate is removed from every ballot;
the winner is the Plurality(1) winner of what remains, recorded as round 2. -/
theorem C13_toptwo (p : Profile) (tb : Option TB) (pri : Nat → List Cand) (st : States)
    (h : topTwoRun p tb pri = .ok st) :
    ∃ (st0 s1 b0 sf : RoundState), pluralityRun p 2 tb (pri 1) = .ok [st0, s1] ∧
      pluralityRun (removeCand s1.remaining.flatten p) 1 tb (pri 2) = .ok [b0, sf] ∧
      st.length = 3 ∧ st[2]? = some { sf with round := 2 } ∧
      (st[1]?).map (·.remaining) = some s1.elected ∧ (st[1]?).map (·.eliminated) = some s1.remaining := by
  unfold topTwoRun at h
  split at h; · cases h
  unfold finalistStage at h
  cases h0 : firstPlaceVotes p with
  | ok sc0 =>
    simp only [h0, bind, Outcome.bind] at h
    cases h1 : pluralityRun p 2 tb (pri 1) with
    | ok pl =>
      simp only [h1] at h
      match pl, h1 with
      | [a, s1], h1 =>
        simp only [] at h
        cases h2 : firstPlaceVotes (removeCand s1.remaining.flatten p) with
        | ok sc1 =>
          simp only [h2, pure] at h
          cases h3 : pluralityRun (removeCand s1.remaining.flatten p) 1 tb (pri 2) with
          | ok pl2 =>
            simp only [h3] at h
            match pl2, h3 with
            | [b0, sf], h3 =>
              simp only [] at h
              injection h with h
              subst h
              exact ⟨a, s1, b0, sf, rfl, h3, rfl, rfl, rfl, rfl⟩
            | [], _ => simp at h
            | [_], _ => simp at h
            | _ :: _ :: _ :: _, _ => simp at h
          | raised e => simp [h3] at h
          | oracleMismatch => simp [h3] at h
          | outOfFuel => simp [h3] at h
        | raised e => simp [h2] at h
        | oracleMismatch => simp [h2] at h
        | outOfFuel => simp [h2] at h
      | [], _ => simp at h
      | [_], _ => simp at h
      | _ :: _ :: _ :: _, _ => simp at h
    | raised e => simp [h1] at h
    | oracleMismatch => simp [h1] at h
    | outOfFuel => simp [h1] at h
  | raised e => simp [h0, bind, Outcome.bind] at h
  | oracleMismatch => simp [h0, bind, Outcome.bind] at h
  | outOfFuel => simp [h0, bind, Outcome.bind] at h

/-- **Alaska** = Plurality for `m_1` finalists, the losers removed from every ballot, then STV for
`m_2` seats on what remains, with the STV rounds renumbered consecutively after round 1. -/
theorem C13_alaska (p : Profile) (m1 m2 : Int) (cfg : STVCfg) (ω : STVOracle) (st : States)
    (h : alaskaRun p m1 m2 cfg ω = .ok st) :
    ∃ st0 s1 res, pluralityRun p m1.toNat cfg.tiebreak (ω.pri 1) = .ok [st0, s1] ∧
      stvRun { cfg with m := m2.toNat } (removeCand s1.remaining.flatten p)
        { pri := fun r => ω.pri (r + 1), sample := fun r => ω.sample (r + 1) } = .ok res ∧
      st.drop 2 = (res.states.drop 1).map (fun s => { s with round := s.round + 1 }) ∧
      (st[1]?).map (·.remaining) = some s1.elected ∧ (st[1]?).map (·.eliminated) = some s1.remaining := by
  unfold alaskaRun at h
  split at h; · cases h
  split at h; · cases h
  unfold finalistStage at h
  cases h0 : firstPlaceVotes p with
  | ok sc0 =>
    simp only [h0, bind, Outcome.bind] at h
    cases h1 : pluralityRun p m1.toNat cfg.tiebreak (ω.pri 1) with
    | ok pl =>
      simp only [h1] at h
      match pl, h1 with
      | [a, s1], h1 =>
        simp only [] at h
        cases h2 : firstPlaceVotes (removeCand s1.remaining.flatten p) with
        | ok sc1 =>
          simp only [h2, pure] at h
          cases h3 : stvRun { cfg with m := m2.toNat } (removeCand s1.remaining.flatten p)
              { pri := fun r => ω.pri (r + 1), sample := fun r => ω.sample (r + 1) } with
          | ok res =>
            simp only [h3] at h
            injection h with h
            subst h
            exact ⟨a, s1, res, rfl, h3, rfl, rfl, rfl⟩
          | raised e => simp [h3] at h
          | oracleMismatch => simp [h3] at h
          | outOfFuel => simp [h3] at h
        | raised e => simp [h2] at h
        | oracleMismatch => simp [h2] at h
        | outOfFuel => simp [h2] at h
      | [], _ => simp at h
      | [_], _ => simp at h
      | _ :: _ :: _ :: _, _ => simp at h
    | raised e => simp [h1] at h
    | oracleMismatch => simp [h1] at h
    | outOfFuel => simp [h1] at h
  | raised e => simp [h0, bind, Outcome.bind] at h
  | oracleMismatch => simp [h0, bind, Outcome.bind] at h
  | outOfFuel => simp [h0, bind, Outcome.bind] at h

end VK
