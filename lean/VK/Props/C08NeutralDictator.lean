/-
  VK.Props.C08NeutralDictator — C08, neutrality of RandomDictator and BoostedRandomDictator: with the draws renamed
  (the drawn ballot, the tie-breaking priority, the candidate drawn by squares) every round is renamed.
-/
import VK.Props.C08NeutralRules
namespace VK

/-- the renamed draws -/
structure RenRD (π : Cand → Cand) (ω ω' : RDOracle) : Prop where
  pick : ∀ r, ω'.pick r = renR π (ω.pick r)
  pri : ∀ r, ω'.pri r = (ω.pri r).map π
  u : ∀ r, ω'.u r = ω.u r
  sq : ∀ r, ω'.sq r = π (ω.sq r)

section
variable (π : Cand → Cand) (hπ : Function.Injective π)
include hπ

theorem dictatorPick_ren (p : Profile) (pick : Ranking) (pri : List Cand) :
    dictatorPick (renP π p) (renR π pick) (pri.map π) = (dictatorPick p pick pri).map (renLoser π) := by
  unfold dictatorPick
  have h0 : (renP π p).ballots = p.ballots.map (renB π) := rfl
  rw [h0, List.isEmpty_map]
  have hany : (p.ballots.map (renB π)).any (fun b => decide (b.ranking = renR π pick) && decide (0 < b.weight)) =
      p.ballots.any (fun b => decide (b.ranking = pick) && decide (0 < b.weight)) := by
    rw [List.any_map]; congr 1; funext b
    simp only [Function.comp_def]
    congr 1
    rw [decide_eq_decide]
    exact ⟨fun e => renR_inj π hπ e, fun e => by show renR π b.ranking = _; rw [e]⟩
  rw [hany]
  split
  · rfl
  · split
    · rfl
    · cases pick with
      | nil => rfl
      | cons first rest =>
        have hc : renR π (first :: rest) = first.map π :: renR π rest := rfl
        rw [hc]
        simp only [List.length_map]
        split
        · have := tiebreakSet_ren π hπ pri first none .random
          simp only [Option.map_none] at this
          rw [this]
          cases tiebreakSet pri first none .random with
          | ok t =>
            simp only [Outcome.map_ok, Outcome.bind_ok]
            cases t with
            | nil => rfl
            | cons g gs =>
              cases g with
              | nil => rfl
              | cons c cs => cases cs <;> rfl
          | raised e => rfl
          | oracleMismatch => rfl
          | outOfFuel => rfl
        · cases first with
          | nil => rfl
          | cons c cs => cases cs <;> rfl

theorem rdLoop_ren (m : Nat) (ω ω' : RDOracle) (hω : RenRD π ω ω') (fuel : Nat) (p : Profile) (n rnd : Nat)
    (acc : List RoundState) :
    rdLoop m ω' fuel (renP π p) n rnd (renStates π acc) = (rdLoop m ω fuel p n rnd acc).map (renStates π) := by
  induction fuel generalizing p n rnd acc with
  | zero =>
    simp only [rdLoop]
    split
    · simp [renStates]
    · rfl
  | succ k ih =>
    simp only [rdLoop]
    split
    · simp [renStates]
    · rw [hω.pick, hω.pri, dictatorPick_ren π hπ]
      cases dictatorPick p (ω.pick rnd) (ω.pri rnd) with
      | ok x =>
        obtain ⟨w, tbs⟩ := x
        simp only [Outcome.map_ok, Outcome.bind_ok, renLoser]
        have h1 : [π w] = [w].map π := rfl
        rw [h1, removeCand_ren π hπ, firstPlaceVotes_ren π hπ]
        cases firstPlaceVotes (removeCand [w] p) with
        | ok sc =>
          simp only [Outcome.map_ok, Outcome.bind_ok]
          rw [← ih]
          congr 1
          simp only [renStates, List.map_cons, renRS, scoreToRanking_ren, renR, List.map_nil]
        | raised e => rfl
        | oracleMismatch => rfl
        | outOfFuel => rfl
      | raised e => rfl
      | oracleMismatch => rfl
      | outOfFuel => rfl

/-- **C08 (neutrality, RandomDictator).** -/
theorem C08_random_dictator_neutral (p : Profile) (m : Int) (ω ω' : RDOracle) (hω : RenRD π ω ω') :
    randomDictatorRun (renP π p) m ω' = (randomDictatorRun p m ω).map (renStates π) := by
  unfold randomDictatorRun
  have hl : (renP π p).cands.length = p.cands.length := by simp [renP]
  rw [hl, rankingValid_ren]
  split
  · rfl
  · split
    · rfl
    · rw [firstPlaceVotes_ren π hπ]
      cases firstPlaceVotes p with
      | ok sc0 =>
        simp only [Outcome.map_ok, Outcome.bind_ok]
        have hc : (renP π p).cands = p.cands.map π := rfl
        rw [hc, initialState_ren]
        exact rdLoop_ren π hπ m.toNat ω ω' hω _ p 0 1 [initialState p.cands (some sc0)]
      | raised e => rfl
      | oracleMismatch => rfl
      | outOfFuel => rfl

theorem boostedPick_ren (p : Profile) (scores : List (Cand × Rat)) (ω ω' : RDOracle) (hω : RenRD π ω ω') (rnd : Nat) :
    boostedPick (renP π p) (renSc π scores) ω' rnd = (boostedPick p scores ω rnd).map (renLoser π) := by
  unfold boostedPick
  have hc : (renP π p).cands = p.cands.map π := rfl
  rw [hc]
  have hall : (renSc π scores).all (fun cs => decide (cs.2 = 0)) = scores.all (fun cs => decide (cs.2 = 0)) := by
    unfold renSc; rw [List.all_map]; rfl
  have hany : (renSc π scores).any (fun cs => decide (cs.1 = π (ω.sq rnd)) && decide (cs.2 ≠ 0)) =
      scores.any (fun cs => decide (cs.1 = ω.sq rnd) && decide (cs.2 ≠ 0)) := by
    unfold renSc; rw [List.any_map]; congr 1; funext cs
    simp only [Function.comp_def]
    congr 1
    rw [decide_eq_decide]
    exact ⟨fun e => hπ e, fun e => by rw [e]⟩
  match hcs : p.cands with
  | [] =>
    simp only [List.map_nil, List.length_nil, hω.u, hω.sq, hω.pick, hω.pri, hall, dictatorPick_ren π hπ]
    split
    · split
      · rfl
      · rw [hany]; split <;> rfl
    · rfl
  | [c] => rfl
  | c :: d :: rest =>
    simp only [List.map_cons, List.length_cons, List.length_map, hω.u, hω.sq, hω.pick, hω.pri, hall,
      dictatorPick_ren π hπ]
    split
    · split
      · rfl
      · rw [hany]; split <;> rfl
    · rfl

theorem brdLoop_ren (m : Nat) (ω ω' : RDOracle) (hω : RenRD π ω ω') (fuel : Nat) (p : Profile)
    (scores : List (Cand × Rat)) (n rnd : Nat) (acc : List RoundState) :
    brdLoop m ω' fuel (renP π p) (renSc π scores) n rnd (renStates π acc) =
      (brdLoop m ω fuel p scores n rnd acc).map (renStates π) := by
  induction fuel generalizing p scores n rnd acc with
  | zero =>
    simp only [brdLoop]
    split
    · simp [renStates]
    · rfl
  | succ k ih =>
    simp only [brdLoop]
    split
    · simp [renStates]
    · rw [boostedPick_ren π hπ p scores ω ω' hω]
      cases boostedPick p scores ω rnd with
      | ok x =>
        obtain ⟨w, tbs⟩ := x
        simp only [Outcome.map_ok, Outcome.bind_ok, renLoser]
        have h1 : [π w] = [w].map π := rfl
        rw [h1, removeCand_ren π hπ, firstPlaceVotes_ren π hπ]
        cases firstPlaceVotes (removeCand [w] p) with
        | ok sc =>
          simp only [Outcome.map_ok, Outcome.bind_ok]
          rw [← ih]
          congr 1
          simp only [renStates, List.map_cons, renRS, scoreToRanking_ren, renR, List.map_nil]
        | raised e => rfl
        | oracleMismatch => rfl
        | outOfFuel => rfl
      | raised e => rfl
      | oracleMismatch => rfl
      | outOfFuel => rfl

/-- **C08 (neutrality, BoostedRandomDictator).** -/
theorem C08_boosted_neutral (p : Profile) (m : Int) (ω ω' : RDOracle) (hω : RenRD π ω ω') :
    boostedRun (renP π p) m ω' = (boostedRun p m ω).map (renStates π) := by
  unfold boostedRun
  have hl : (renP π p).cands.length = p.cands.length := by simp [renP]
  rw [hl, rankingValid_ren]
  split
  · rfl
  · split
    · rfl
    · rw [firstPlaceVotes_ren π hπ]
      cases firstPlaceVotes p with
      | ok sc0 =>
        simp only [Outcome.map_ok, Outcome.bind_ok]
        have hc : (renP π p).cands = p.cands.map π := rfl
        rw [hc, initialState_ren]
        exact brdLoop_ren π hπ m.toNat ω ω' hω _ p sc0 0 1 [initialState p.cands (some sc0)]
      | raised e => rfl
      | oracleMismatch => rfl
      | outOfFuel => rfl

end
end VK
