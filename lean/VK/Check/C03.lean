/-
  Leaf module of check C03: the property's theorem modules and the kernel-equality modules of the
  kernels its theorems depend on (regenerated from /repo's source on every run). Nothing imports this file, so a
  changed kernel reaches only the properties listed here.
-/
import VK.Props.C03Sample
import VK.Props.C03Random
import VK.Props.KernelsSTV
