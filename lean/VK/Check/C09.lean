/-
  Leaf module of check C09: the property's theorem modules and the kernel-equality modules of the
  kernels its theorems depend on (regenerated from /repo's source on every run). Nothing imports this file, so a
  changed kernel reaches only the properties listed here.
-/
import VK.Props.C09
import VK.Props.C09Status
import VK.Props.C09Single
