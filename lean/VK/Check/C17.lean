/-
  Leaf module of check C17: the property's theorem modules and the kernel-equality modules of the
  kernels its theorems depend on (regenerated from /repo's source on every run). Nothing imports this file, so a
  changed kernel reaches only the properties listed here.
-/
import VK.Props.C17
import VK.Props.KernelsDictator
import VK.Props.C17Tiebreak
