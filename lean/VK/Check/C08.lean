/-
  Leaf module of check C08: the property's theorem modules and the kernel-equality modules of the
  kernels its theorems depend on (regenerated from /repo's source on every run). Nothing imports this file, so a
  changed kernel reaches only the properties listed here.
-/
import VK.Props.C08Scored
import VK.Props.C08Random
import VK.Props.C08NeutralPairwise
import VK.Props.C08NeutralDictator
import VK.Props.C08CandOrderSTV
import VK.Props.C08CandOrderPairwise
import VK.Props.C08Rep
import VK.Props.C08CandOrderTopTwo
import VK.Props.C08CandOrderAlaska
import VK.Props.C08RepAlaska
import VK.Props.C08RepDictator
