/-
  VK.Model.Utils — mirrors `votekit/utils.py` function by function.
-/
import VK.Model.Basic
namespace VK

/-! ### remove_cand -/

/-- remove candidates from a ranking; emptied positions disappear, order and grouping kept -/
def scrubRanking (removed : List Cand) (r : Ranking) : Ranking :=
  (r.map (fun s => s.filter (fun c => !removed.contains c))).filter (fun s => !s.isEmpty)

def scrubScores (removed : List Cand) (s : Scores) : Scores :=
  s.filter (fun cs => !removed.contains cs.1)

/-- one ballot of `remove_cand`'s loop: an exhausted ballot becomes `Ballot(weight=0)` -/
def scrubBallot (removed : List Cand) (b : Ballot) : Ballot :=
  let r := scrubRanking removed b.ranking
  let s := scrubScores removed b.scores
  if r.isEmpty && s.isEmpty then { ranking := [], scores := [], weight := 0 }
  else { ranking := r, scores := s, weight := b.weight }

def scrubBallots (removed : List Cand) (bs : List Ballot) (leaveZero : Bool) : List Ballot :=
  let sb := bs.map (scrubBallot removed)
  if leaveZero then sb else sb.filter (fun b => decide (0 < b.weight))

/-- `remove_cand` on a tuple of ballots -/
def removeCandBallots (removed : List Cand) (bs : List Ballot)
    (cond : Bool := true) (leaveZero : Bool := false) : List Ballot :=
  let out := scrubBallots removed bs leaveZero
  if cond then condense out else out

/-- `remove_cand` on a profile -/
def removeCand (removed : List Cand) (p : Profile)
    (cond : Bool := true) (leaveZero : Bool := false) : Profile :=
  { ballots := removeCandBallots removed p.ballots cond leaveZero,
    cands := p.cands.filter (fun c => !removed.contains c) }

/-- `remove_cand` on a single ballot: returns `clean_profile.ballots[0]`, which raises IndexError
when the ballot is exhausted and zero-weight ballots are not kept (finding F-C12). -/
def removeCandBallot (removed : List Cand) (b : Ballot)
    (cond : Bool := true) (leaveZero : Bool := false) : Outcome Ballot :=
  match removeCandBallots removed [b] cond leaveZero with
  | [] => .raised .indexError
  | b' :: _ => .ok b'

/-! ### add_missing_cands -/

def missingCands (cands : List Cand) (r : Ranking) : List Cand :=
  cands.filter (fun c => !r.flatten.contains c)

/-- One ballot of `add_missing_cands` (scores are dropped by the code: the new ballot is built from
id, weight, voter_set and ranking only). -/
def addMissingBallot (cands : List Cand) (b : Ballot) : Ballot :=
  let miss := missingCands cands b.ranking
  { ranking := if miss.isEmpty then b.ranking else b.ranking ++ [miss], weight := b.weight, scores := [] }

def addMissing (p : Profile) : Outcome Profile :=
  if p.ballots.any (fun b => b.ranking.isEmpty) then .raised .typeError
  else .ok { ballots := condense (p.ballots.map (addMissingBallot p.cands)), cands := p.cands }

/-! ### score vectors -/

/-- `validate_score_vector`: the first offending entry decides the message, both are ValueError -/
def validVector : List Rat → Bool
  | [] => true
  | [x] => decide (0 ≤ x)
  | x :: y :: rest => decide (0 ≤ x) && decide (y ≤ x) && validVector (y :: rest)

def padVector (v : List Rat) (n : Nat) : List Rat :=
  if v.length < n then v ++ List.replicate (n - v.length) 0 else v

/-- points a ballot hands to each position: average of the slice the position spans
(exact; the unrepaired code divides in floating point, finding F-C04) -/
def positionAlloc (v : List Rat) : Nat → Ranking → List (List Cand × Rat)
  | _, [] => []
  | i, s :: rest =>
    (s, rsum ((v.drop i).take s.length) / (s.length : Rat)) :: positionAlloc v (i + s.length) rest

/-- points ballot `b` (already completed by `add_missing_cands`) gives to candidate `c` -/
def ballotPoints (v : List Rat) (r : Ranking) (c : Cand) : Rat :=
  rsum (((positionAlloc v 0 r).filter (fun sa => sa.1.contains c)).map (·.2))

/-- `score_profile_from_rankings` -/
def scoreFromRankings (p : Profile) (v : List Rat) : Outcome (List (Cand × Rat)) :=
  if !validVector v then .raised .valueError
  else do
    let v' := padVector v p.cands.length
    let p' ← addMissing p
    pure (p'.cands.map (fun c =>
      (c, rsum (p'.ballots.map (fun b => ballotPoints v' b.ranking c * b.weight)))))

def fpvVector (n : Nat) : List Rat := 1 :: List.replicate n 0
def bordaVector (n : Nat) : List Rat := (List.range n).map (fun i => ((n - i : Nat) : Rat))

def firstPlaceVotes (p : Profile) : Outcome (List (Cand × Rat)) :=
  scoreFromRankings p (fpvVector p.cands.length)

def bordaScores (p : Profile) : Outcome (List (Cand × Rat)) :=
  scoreFromRankings p (bordaVector p.cands.length)

/-- `mentions` -/
def mentions (p : Profile) : Outcome (List (Cand × Rat)) :=
  if p.ballots.any (fun b => b.ranking.isEmpty) then .raised .typeError
  else .ok (p.cands.map (fun c =>
    (c, rsum (p.ballots.map (fun b =>
      ((b.ranking.flatten.filter (· = c)).length : Rat) * b.weight)))))

/-- `score_profile_from_ballot_scores` -/
def scoreFromBallotScores (p : Profile) : Outcome (List (Cand × Rat)) :=
  if p.ballots.any (fun b => b.scores.isEmpty) then .raised .typeError
  else if p.ballots.any (fun b => b.scores.any (fun cs => !p.cands.contains cs.1)) then
    .raised .keyError
  else .ok (p.cands.map (fun c =>
    (c, rsum (p.ballots.map (fun b =>
      rsum ((b.scores.filter (fun cs => cs.1 = c)).map (·.2)) * b.weight)))))

/-! ### score_dict_to_ranking -/

def lookupScore (sc : List (Cand × Rat)) (c : Cand) : Rat :=
  match sc.find? (fun cs => cs.1 = c) with
  | some cs => cs.2
  | none => 0

/-- insert into a strictly descending duplicate-free list of rationals -/
def insertDesc (x : Rat) : List Rat → List Rat
  | [] => [x]
  | y :: ys => if y < x then x :: y :: ys else if x = y then y :: ys else y :: insertDesc x ys

def distinctDesc (l : List Rat) : List Rat := l.foldr insertDesc []

/-- groups of equal score, high to low (or low to high); `{}` gives `(frozenset(),)` which the
canonical form writes as `[]`. -/
def scoreToRanking (sc : List (Cand × Rat)) (highLow : Bool := true) : Ranking :=
  let vals := distinctDesc (sc.map (·.2))
  let vals := if highLow then vals else vals.reverse
  vals.map (fun v => (sc.filter (fun cs => cs.2 = v)).map (·.1))

/-! ### tie breaking -/

inductive TB where
  | random | borda | firstPlace
  deriving DecidableEq, Repr, Inhabited

/-- Order the members of `s` by a priority list supplied by the oracle; the answer must mention
every member exactly once. -/
def orderBy (pri : List Cand) (s : List Cand) : Outcome (List Cand) :=
  let o := pri.filter (fun c => s.contains c)
  if o.length = s.length && s.all (fun c => (pri.filter (· = c)).length = 1) then .ok o
  else .oracleMismatch

/-- random order of a group (singletons need no oracle) -/
def breakGroup (pri : List Cand) (g : List Cand) : Outcome Ranking :=
  if g.length ≤ 1 then .ok [g] else do
    let o ← orderBy pri g
    pure (o.map (fun c => [c]))

def breakGroups (pri : List Cand) : Ranking → Outcome Ranking
  | [] => .ok []
  | g :: gs => do
    let a ← breakGroup pri g
    let b ← breakGroups pri gs
    pure (a ++ b)

/-- `tiebreak_set(r_set, profile, tiebreak)`; `profile = none` is the `profile=None` call. -/
def tiebreakSet (pri : List Cand) (s : List Cand) (profile : Option Profile) (tb : TB) :
    Outcome Ranking :=
  match tb, profile with
  | .random, _ => do
    let o ← orderBy pri s
    pure (o.map (fun c => [c]))
  | _, none => .raised .valueError
  | tb, some p => do
    -- a `PreferenceProfile` object is always truthy, so `and profile` only tests for `None`
    let sc ← if tb = .borda then bordaScores p else firstPlaceVotes p
    let sc' := sc.filter (fun cs => s.contains cs.1)
    breakGroups pri (scoreToRanking sc')

/-- `tiebroken_ranking` -/
def tiebrokenRanking (pri : List Cand) (profile : Option Profile) (tb : TB) :
    Ranking → Outcome (Ranking × List (List Cand × Ranking))
  | [] => .ok ([], [])
  | s :: rest => do
    let (r', d') ← tiebrokenRanking pri profile tb rest
    if s.length > 1 then
      let t ← tiebreakSet pri s profile tb
      pure (t ++ r', (s, t) :: d')
    else pure ([s] ++ r', d')

/-! ### elect_cands_from_set_ranking -/

structure ElectResult where
  elected : Ranking
  remaining : Ranking
  tiebreak : Option (List Cand × Ranking)
  deriving Repr, DecidableEq

/-- the `while num_elected < m` loop; `acc` = groups elected so far (reversed), `k` = seats still
to fill. An exhausted ranking is Python's `ranking[i]` IndexError (unreachable after the up-front
`m ≤ #candidates` test). Structural recursion on the ranking. -/
def electLoop (pri : List Cand) (profile : Option Profile) (tb : Option TB) :
    Nat → Ranking → Ranking → Outcome ElectResult
  | k, acc, [] => if k = 0 then .ok ⟨acc.reverse, [], none⟩ else .raised .indexError
  | k, acc, g :: rest =>
    if k = 0 then .ok ⟨acc.reverse, g :: rest, none⟩
    else if g.length ≤ k then electLoop pri profile tb (k - g.length) (g :: acc) rest
    else
      match tb with
      | none => .raised .valueError
      | some t => do
        let broken ← tiebreakSet pri g profile t
        pure ⟨acc.reverse ++ broken.take k, broken.drop k ++ rest, some (g, broken)⟩

def electFromRanking (pri : List Cand) (ranking : Ranking) (m : Nat) (profile : Option Profile)
    (tb : Option TB) : Outcome ElectResult :=
  if m < 1 then .raised .valueError
  else if ranking.flatten.length < m then .raised .valueError
  else electLoop pri profile tb m [] ranking

/-! ### expand_tied_ballot / resolve_profile_ties -/

def insertEverywhere (x : Cand) : List Cand → List (List Cand)
  | [] => [[x]]
  | y :: ys => (x :: y :: ys) :: (insertEverywhere x ys).map (y :: ·)

/-- all orders of a list (as a list of lists; order of enumeration is not observable) -/
def perms : List Cand → List (List Cand)
  | [] => [[]]
  | x :: xs => (perms xs).flatMap (insertEverywhere x)

def fact : Nat → Nat
  | 0 => 1
  | n + 1 => (n + 1) * fact n

/-- all linearisations of a ranking with the weight divisor each step contributes -/
def linearise : Ranking → List (List Cand)
  | [] => [[]]
  | s :: rest => (perms s).flatMap (fun o => (linearise rest).map (o ++ ·))

def tieDivisor (r : Ranking) : Nat := (r.map (fun s => fact s.length)).foldl (· * ·) 1

/-- `expand_tied_ballot` (ids and voter sets are outside the model) -/
def expandTied (b : Ballot) : Outcome (List Ballot) :=
  if b.ranking.isEmpty then .raised .typeError
  else if b.ranking.all (fun s => s.length = 1) then .ok [b]
  else .ok ((linearise b.ranking).map (fun o =>
    { ranking := o.map (fun c => [c]), weight := b.weight / (tieDivisor b.ranking : Rat), scores := [] }))

/-- `resolve_profile_ties` -/
def resolveTies (p : Profile) : Outcome Profile := do
  let bs ← p.ballots.foldr (fun b acc => do
    let xs ← expandTied b
    let ys ← acc
    pure (xs ++ ys)) (.ok [])
  let out := condense bs
  pure { ballots := out, cands := candsCast out }

end VK
