/-
  VK.Model.Dist — finite-support rational distributions: the second reading of the random
  primitives (the first reading is the oracle argument of the rule models).

  Laws assumed of the library primitives (trusted base, named in the evidence):
  * `random.choices(xs, weights=ws, k=1)` / `numpy.random.choice(xs, p=ps)`: categorical, P(i) = w_i / Σw
  * `random.sample(xs, k=len(xs))`: sequential uniform picks without replacement
  * `random.uniform(0,1) <= q`: probability `q` for 0 ≤ q ≤ 1
-/
import VK.Model.Rules
namespace VK

/-- a finite-support distribution as a weighted list (outcomes may repeat; `prob` adds them up) -/
structure Dist (α : Type) where
  supp : List (α × Rat)
  deriving Repr

namespace Dist
def pure {α} (a : α) : Dist α := ⟨[(a, 1)]⟩
def bind {α β} (d : Dist α) (f : α → Dist β) : Dist β :=
  ⟨d.supp.flatMap (fun ap => (f ap.1).supp.map (fun bq => (bq.1, ap.2 * bq.2)))⟩
def prob {α} [DecidableEq α] (d : Dist α) (x : α) : Rat :=
  rsum ((d.supp.filter (fun e => e.1 = x)).map (·.2))
def mass {α} (d : Dist α) : Rat := rsum (d.supp.map (·.2))

/-- categorical draw: outcome `a_i` with probability `w_i / Σ w` -/
def weighted {α} (xs : List (α × Rat)) : Dist α :=
  let T := rsum (xs.map (·.2))
  ⟨xs.map (fun aw => (aw.1, aw.2 / T))⟩

/-- uniform draw from a list -/
def uniform {α} (xs : List α) : Dist α := ⟨xs.map (fun a => (a, 1 / (xs.length : Rat)))⟩

/-- `true` with probability `q` -/
def bernoulli (q : Rat) : Dist Bool := ⟨[(true, q), (false, 1 - q)]⟩
end Dist

/-- remove the element at index `i` -/
def dropIdx {α} : List α → Nat → List α
  | [], _ => []
  | _ :: xs, 0 => xs
  | x :: xs, i + 1 => x :: dropIdx xs i

/-- `random.sample(xs, len(xs))`: pick an index uniformly, remove it, repeat (fuel = length) -/
def shuffleDist {α} : Nat → List α → Dist (List α)
  | 0, _ => Dist.pure []
  | n + 1, xs =>
    if xs.isEmpty then Dist.pure []
    else Dist.bind (Dist.uniform (List.range xs.length)) (fun i =>
      match xs[i]? with
      | some a => Dist.bind (shuffleDist n (dropIdx xs i)) (fun rest => Dist.pure (a :: rest))
      | none => Dist.pure [])

/-- law of one RandomDictator round: a ballot in proportion to its weight, then a uniformly random
member of its first position (the random tiebreak of a tied first place) -/
def rdStepDist (p : Profile) : Dist Cand :=
  Dist.bind (Dist.weighted (p.ballots.map (fun b => (b, b.weight)))) (fun b =>
    match b.ranking with
    | [] => ⟨[]⟩
    | first :: _ => Dist.uniform first)

/-- proportional-to-squares draw on the recorded first-place votes -/
def squaresDist (scores : List (Cand × Rat)) : Dist Cand :=
  Dist.weighted (scores.map (fun cs => (cs.1, cs.2 * cs.2)))

/-- law of one BoostedRandomDictator round with `n ≥ 2` remaining candidates -/
def brdStepDist (p : Profile) (scores : List (Cand × Rat)) : Dist Cand :=
  match p.cands with
  | [c] => Dist.pure c
  | cands =>
    Dist.bind (Dist.bernoulli (1 / ((cands.length : Rat) - 1))) (fun sq =>
      if sq then squaresDist scores else rdStepDist p)

end VK
