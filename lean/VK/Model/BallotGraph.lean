/-
  VK.Model.BallotGraph — the *specification* of the ballot graph on `n` candidates
  (`graphs/ballot_graph.py` builds it recursively; the correspondence check compares the
  implementation's graph with this specification exhaustively for n = 2..6).
-/
import VK.Model.Basic
namespace VK

/-- all duplicate-free sequences of length `k` over `1..n` -/
def seqs (n : Nat) : Nat → List (List Nat)
  | 0 => [[]]
  | k + 1 => (seqs n k).flatMap (fun s =>
      ((List.range n).map (· + 1)).filterMap (fun c => if s.contains c then none else some (s ++ [c])))

/-- nodes: every ranking of length 1..n except length n-1 -/
def specNodes (n : Nat) : List (List Nat) :=
  ((List.range n).map (· + 1)).flatMap (fun k => if k + 1 = n then [] else seqs n k)

/-- `v` is `u` with the entries at positions `i`, `i+1` swapped, for some `i` -/
def swapAt : List Nat → Nat → List Nat
  | a :: b :: rest, 0 => b :: a :: rest
  | a :: rest, i + 1 => a :: swapAt rest i
  | l, _ => l

def isAdjSwap (u v : List Nat) : Bool :=
  u.length = v.length && u != v && (List.range (u.length - 1)).any (fun i => swapAt u i == v)

def isPrefix (s l : List Nat) : Bool := l.take s.length == s

/-- adjacency of two nodes -/
def adj (n : Nat) (u v : List Nat) : Bool :=
  isAdjSwap u v ||
  (u.length + 1 = v.length && isPrefix u v) || (v.length + 1 = u.length && isPrefix v u) ||
  (u.length + 2 = n && v.length = n && isPrefix u v) || (v.length + 2 = n && u.length = n && isPrefix v u)

def lexLt : List Nat → List Nat → Bool
  | [], [] => false
  | [], _ :: _ => true
  | _ :: _, [] => false
  | a :: as, b :: bs => a < b || (a = b && lexLt as bs)

/-- edges as ordered pairs (u < v lexicographically) -/
def specEdges (n : Nat) : List (List Nat × List Nat) :=
  let ns := specNodes n
  ns.flatMap (fun u => (ns.filter (fun v => lexLt u v && adj n u v)).map (fun v => (u, v)))

/-- `fix_short_ballot`: a ballot of length n-1 is completed by the one missing candidate -/
def fixShort (n : Nat) (b : List Nat) : List Nat :=
  if b.length + 1 = n then b ++ ((List.range n).map (· + 1)).filter (fun c => !b.contains c) else b

/-- `from_profile`: node weights (ballots that are not nodes are silently ignored, as in the code) -/
def nodeWeights (n : Nat) (fix : Bool) (ballots : List (List Nat × Rat)) : List (List Nat × Rat) :=
  (specNodes n).map (fun v =>
    (v, rsum ((ballots.filter (fun bw => (if fix then fixShort n bw.1 else bw.1) = v)).map (·.2))))

end VK
