/-
  VK.Model.Election — mirrors `votekit/models.py` (the `Election` base class queries) and
  `votekit/elections/election_state.py`.

  Canonical form: Python's `(frozenset(),)` (the default of `elected`, `eliminated`, `remaining`) is
  written `[]`; the harness drops empty sets before comparing.
-/
import VK.Model.Utils
namespace VK

structure RoundState where
  round : Nat := 0
  remaining : Ranking := []
  elected : Ranking := []
  eliminated : Ranking := []
  tiebreaks : List (List Cand × Ranking) := []
  scores : List (Cand × Rat) := []
  deriving DecidableEq, Repr, Inhabited

/-- A finished election: what `election_states` holds. -/
abbrev States := List RoundState

/-- Round-0 state built by `_run_election`. `scores = none` is `score_function=None`. -/
def initialState (cands : List Cand) (scores : Option (List (Cand × Rat))) (highLow : Bool := true) :
    RoundState :=
  match scores with
  | some sc => { remaining := scoreToRanking sc highLow, scores := sc }
  | none => { remaining := if cands.isEmpty then [] else [cands], scores := [] }

/-- Python's index normalisation used by `get_profile/get_elected/get_eliminated/get_status_df`:
out of `[-len, len)` raises IndexError, otherwise `r % len`. -/
def normIndex (len : Nat) (r : Int) : Outcome Nat :=
  if r < -(len : Int) || r > (len : Int) - 1 then .raised .indexError
  else .ok (r % (len : Int)).toNat

/-- `election_states[r]` (list indexing with Python semantics) -/
def pyIndex {α} (l : List α) (r : Int) : Outcome α :=
  let i : Int := if r < 0 then r + l.length else r
  if i < 0 then .raised .indexError
  else match l[i.toNat]? with
    | some a => .ok a
    | none => .raised .indexError

def getElected (st : States) (r : Int) : Outcome Ranking := do
  let k ← normIndex st.length r
  pure ((st.take (k + 1)).flatMap (·.elected))

/-- reverse order of rounds, and each round's groups reversed -/
def getEliminated (st : States) (r : Int) : Outcome Ranking := do
  let k ← normIndex st.length r
  pure ((st.take (k + 1)).reverse.flatMap (fun s => s.eliminated.reverse))

def getRemaining (st : States) (r : Int) : Outcome Ranking := do
  let s ← pyIndex st r
  pure s.remaining

def getRanking (st : States) (r : Int) : Outcome Ranking := do
  let e ← getElected st r
  let rem ← getRemaining st r
  let el ← getEliminated st r
  pure ((e ++ rem ++ el).filter (fun s => !s.isEmpty))

inductive Status where
  | remaining | elected | eliminated
  deriving DecidableEq, Repr, Inhabited

/-- one pass of the status table update for round state `s` (round number `i`) -/
def statusUpdate (tbl : List (Cand × Status × Nat)) (s : RoundState) (i : Nat) :
    List (Cand × Status × Nat) :=
  tbl.map (fun (c, stt, rd) =>
    let (stt, rd) := if s.elected.flatten.contains c then (Status.elected, i) else (stt, rd)
    let (stt, rd) := if s.eliminated.flatten.contains c then (Status.eliminated, i) else (stt, rd)
    let rd := if s.remaining.flatten.contains c then i else rd
    (c, stt, rd))

def statusLoop (tbl : List (Cand × Status × Nat)) : List RoundState → Nat → List (Cand × Status × Nat)
  | [], _ => tbl
  | s :: rest, i => statusLoop (statusUpdate tbl s i) rest (i + 1)

/-- `get_status_df`: rows in ranking order; a candidate missing from the ranking would be a NaN row
(never happens when the partition property holds) and is written with status `remaining`, round 0
— the harness maps NaN rows to a distinct marker, so such a row is a disagreement. -/
def getStatus (cands : List Cand) (st : States) (r : Int) : Outcome (List (Cand × Status × Nat)) := do
  let k ← normIndex st.length r
  let order ← getRanking st r
  let tbl0 : List (Cand × Status × Nat) := cands.map (fun c => (c, Status.remaining, 0))
  let tbl := statusLoop tbl0 ((st.drop 1).take k) 1
  pure (order.flatten.filterMap (fun c => tbl.find? (fun row => row.1 = c)))

/-! Derived observations used by the property statements -/

def electedOf (st : States) : List Cand := (st.flatMap (·.elected)).flatten
def eliminatedOf (st : States) : List Cand := (st.flatMap (·.eliminated)).flatten

end VK
