/-
  VK.Model.Clean — mirrors `votekit/cleaning.py`. These functions operate on whole positions
  (a position is compared as a set) and merge only *adjacent* ballots with equal rankings
  (`itertools.groupby`).
-/
import VK.Model.Utils
namespace VK

/-- `remove_empty_ballots` -/
def removeEmptyBallots (p : Profile) (keepCands : Bool) : Profile :=
  let bs := p.ballots.filter (fun b => !b.ranking.isEmpty)
  { ballots := bs, cands := if keepCands && !p.cands.isEmpty then p.cands else candsCast bs }

/-- keep the first occurrence of every position -/
def dedupPositions : Ranking → Ranking → Ranking
  | _, [] => []
  | seen, s :: rest =>
    if seen.contains s then dedupPositions seen rest else s :: dedupPositions (s :: seen) rest

/-- `merge_ballots` over `groupby(…, key=ranking)`: adjacent equal rankings are summed; ids and
scores are dropped -/
def mergeAdjacent : List (Ranking × Rat) → List (Ranking × Rat)
  | [] => []
  | (r, w) :: rest =>
    match mergeAdjacent rest with
    | (r', w') :: tail => if r = r' then (r, w + w') :: tail else (r, w) :: (r', w') :: tail
    | [] => [(r, w)]

def toBallots (l : List (Ranking × Rat)) : List Ballot :=
  l.map (fun rw => { ranking := rw.1, weight := rw.2, scores := [] })

/-- `deduplicate_profiles` -/
def deduplicateProfiles (p : Profile) : Outcome Profile :=
  if p.ballots.any (fun b => b.ranking.isEmpty) then .raised .typeError
  else
    let bs := toBallots (mergeAdjacent (p.ballots.map (fun b => (dedupPositions [] b.ranking, b.weight))))
    .ok { ballots := bs, cands := candsCast bs }

/-- `remove_noncands`: whole positions equal to `{x}` for a non-candidate `x` disappear (a tied
position containing `x` is kept as is), repeated positions are dropped, emptied ballots vanish -/
def removeNoncands (p : Profile) (nc : List Cand) : Outcome Profile :=
  if p.ballots.any (fun b => b.ranking.isEmpty) then .raised .typeError
  else
    let clean := fun (b : Ballot) =>
      (dedupPositions [] (b.ranking.filter (fun s => !(nc.any (fun x => s == [x])))), b.weight)
    let bs := toBallots (mergeAdjacent ((p.ballots.map clean).filter (fun rw => !rw.1.isEmpty)))
    .ok { ballots := bs, cands := candsCast bs }

end VK
