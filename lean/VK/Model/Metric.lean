/-
  VK.Model.Metric — mirrors `metrics/distances.py` (`lp_dist`, `profiles_to_ndarrys`) over exact
  rationals: the p-th power sum of the differences of the normalised ranking-weight
  distributions, and the maximum for 'inf'. The float `sum ** (1/p)` is compared numerically by the
  harness; the metric theorems are about the exact quantity.
-/
import VK.Model.Basic
namespace VK

/-- weight of the ballots with ranking `r` (scores are ignored by `to_ranking_dict`) -/
def rankWt (bs : List Ballot) (r : Ranking) : Rat :=
  rsum ((bs.filter (fun b => b.ranking = r)).map (·.weight))

/-- rankings occurring in a ballot list, first-seen order, no repeats -/
def rankKeys : List Ballot → List Ranking
  | [] => []
  | b :: bs => b.ranking :: (rankKeys bs).filter (· ≠ b.ranking)

/-- standardised share of ranking `r` -/
def share (bs : List Ballot) (r : Ranking) : Rat := rankWt bs r / totalWeight bs

def unionKeys (a b : List Ballot) : List Ranking :=
  rankKeys a ++ (rankKeys b).filter (fun r => !(rankKeys a).contains r)

def rabs (x : Rat) : Rat := if x < 0 then -x else x

def rpow (x : Rat) : Nat → Rat
  | 0 => 1
  | n + 1 => x * rpow x n

/-- Σ_r |P̂ r − Q̂ r|^p over the union of the supports -/
def lpPow (p : Nat) (P Q : List Ballot) : Rat :=
  rsum ((unionKeys P Q).map (fun r => rpow (rabs (share P r - share Q r)) p))

def rmax : List Rat → Rat
  | [] => 0
  | x :: xs => let m := rmax xs; if m < x then x else m

/-- the 'inf' distance -/
def lInf (P Q : List Ballot) : Rat :=
  rmax ((unionKeys P Q).map (fun r => rabs (share P r - share Q r)))

end VK
