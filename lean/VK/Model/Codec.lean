/-
  VK.Model.Codec — JSON encoding of model values for the line protocol of the driver.
  Rationals travel as strings "n" or "n/d"; candidate sets as sorted index arrays.
-/
import Lean.Data.Json
import VK.Model.Rules
open Lean
namespace VK.Codec

abbrev D := Except String

def parseRat (s : String) : D Rat :=
  match s.splitOn "/" with
  | [n] => match n.toInt? with
    | some i => pure (i : Rat)
    | none => throw s!"bad rational {s}"
  | [n, d] => match n.toInt?, d.toNat? with
    | some a, some b => if b = 0 then throw s!"zero denominator {s}" else pure (mkRat a b)
    | _, _ => throw s!"bad rational {s}"
  | _ => throw s!"bad rational {s}"

def showRat (q : Rat) : String :=
  if q.den = 1 then toString q.num else s!"{q.num}/{q.den}"

def getRat (j : Json) : D Rat := do
  match j with
  | .str s => parseRat s
  | .num n => if n.exponent = 0 then pure (n.mantissa : Rat) else throw "non-integer json number"
  | _ => throw "rational expected"

def getNat (j : Json) : D Nat := do
  match j.getNat? with
  | .ok n => pure n
  | .error e => throw e

def getInt (j : Json) : D Int := do
  match j.getInt? with
  | .ok n => pure n
  | .error e => throw e

def getBool (j : Json) : D Bool := do
  match j.getBool? with
  | .ok n => pure n
  | .error e => throw e

def getStr (j : Json) : D String := do
  match j.getStr? with
  | .ok n => pure n
  | .error e => throw e

def getArr (j : Json) : D (List Json) := do
  match j with
  | .arr a => pure a.toList
  | .null => pure []
  | _ => throw "array expected"

def getList {α} (f : Json → D α) (j : Json) : D (List α) := do
  let a ← getArr j
  a.mapM f

def field (j : Json) (k : String) : D Json :=
  match j.getObjVal? k with
  | .ok v => pure v
  | .error _ => throw s!"missing field {k}"

def fieldD (j : Json) (k : String) (dflt : Json) : Json :=
  match j.getObjVal? k with
  | .ok v => v
  | .error _ => dflt

def optField {α} (j : Json) (k : String) (f : Json → D α) : D (Option α) :=
  match j.getObjVal? k with
  | .ok .null => pure none
  | .ok v => do let a ← f v; pure (some a)
  | .error _ => pure none

def getCands : Json → D (List Cand) := getList getNat
def getRanking : Json → D Ranking := getList getCands

def getPair {α β} (f : Json → D α) (g : Json → D β) (j : Json) : D (α × β) := do
  match ← getArr j with
  | [a, b] => do let x ← f a; let y ← g b; pure (x, y)
  | _ => throw "pair expected"

def getScores : Json → D (List (Cand × Rat)) := getList (getPair getNat getRat)

def getBallot (j : Json) : D Ballot := do
  let r ← getRanking (fieldD j "r" .null)
  let w ← getRat (fieldD j "w" (.str "1"))
  let s ← getScores (fieldD j "s" .null)
  pure { ranking := r, weight := w, scores := s }

def getProfile (j : Json) : D Profile := do
  let bs ← getList getBallot (fieldD j "b" .null)
  let cs ← getCands (fieldD j "c" .null)
  pure { ballots := bs, cands := cs }

def getTB (j : Json) : D (Option TB) := do
  match j with
  | .null => pure none
  | .str "random" => pure (some .random)
  | .str "borda" => pure (some .borda)
  | .str "first_place" => pure (some .firstPlace)
  | _ => throw "bad tiebreak"

/-- function from a JSON array indexed by round (missing ⇒ default) -/
def byRound {α} (f : Json → D α) (dflt : α) (j : Json) : D (Nat → α) := do
  let l ← getList f j
  pure (fun i => (l[i]?).getD dflt)   -- lookup table built by the driver, not a model default

/-! encoders -/

def jRat (q : Rat) : Json := .str (showRat q)
def jNat (n : Nat) : Json := .num (JsonNumber.fromNat n)
def jInt (n : Int) : Json := .num (JsonNumber.fromInt n)
def jCands (l : List Cand) : Json := .arr (l.map jNat).toArray
def jRanking (r : Ranking) : Json := .arr (r.map jCands).toArray
def jScores (s : List (Cand × Rat)) : Json := .arr (s.map (fun cs => Json.arr #[jNat cs.1, jRat cs.2])).toArray
def jBallot (b : Ballot) : Json :=
  Json.mkObj [("r", jRanking b.ranking), ("w", jRat b.weight), ("s", jScores b.scores)]
def jBallots (bs : List Ballot) : Json := .arr (bs.map jBallot).toArray
def jProfile (p : Profile) : Json := Json.mkObj [("b", jBallots p.ballots), ("c", jCands p.cands)]
def jTiebreaks (t : List (List Cand × Ranking)) : Json :=
  .arr (t.map (fun kv => Json.arr #[jCands kv.1, jRanking kv.2])).toArray
def jState (s : RoundState) : Json :=
  Json.mkObj [("round", jNat s.round), ("remaining", jRanking s.remaining),
    ("elected", jRanking s.elected), ("eliminated", jRanking s.eliminated),
    ("tiebreaks", jTiebreaks s.tiebreaks), ("scores", jScores s.scores)]
def jStates (s : States) : Json := .arr (s.map jState).toArray

def exnName : Exn → String
  | .typeError => "TypeError" | .valueError => "ValueError" | .indexError => "IndexError"
  | .zeroDiv => "ZeroDivisionError" | .keyError => "KeyError" | .attrError => "AttributeError"
  | .unbound => "UnboundLocalError" | .other => "Other"
  | .emptyData => "EmptyDataError" | .dataError => "DataError" | .fileNotFound => "FileNotFoundError"

def jOutcome {α} (f : α → Json) : Outcome α → Json
  | .ok a => Json.mkObj [("ok", f a)]
  | .raised e => Json.mkObj [("exn", .str (exnName e))]
  | .oracleMismatch => Json.mkObj [("mismatch", .bool true)]
  | .outOfFuel => Json.mkObj [("fuel", .bool true)]

end VK.Codec
