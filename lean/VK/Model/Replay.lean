/-
  VK.Model.Replay — the profile a finished election reports for round `r` (`get_profile`), given by
  direct construction from the recorded rounds; and `get_step`.
  The implementation obtains it by replaying `_run_step` from the initial profile; the correspondence
  check compares the two as weight maps for elections whose rounds involved no random choice.
-/
import VK.Model.Rules
namespace VK

/-- single-round rules: the initial profile, then the profile without the elected candidates -/
def singleRoundProfiles (p : Profile) (st : States) : List Profile :=
  match st with
  | [_, s1] => [p, removeCand s1.elected.flatten p]
  | _ => [p]

def topTwoProfiles (p : Profile) (st : States) : List Profile :=
  match st with
  | [_, s1, s2] =>
    let p1 := removeCand s1.eliminated.flatten p
    [p, p1, removeCand s2.elected.flatten p1]
  | _ => [p]

/-- Alaska: round 1 is the profile without the Plurality losers; later rounds are the STV stage's -/
def alaskaProfiles (p : Profile) (m2 : Int) (cfg : STVCfg) (ω : STVOracle) (st : States) : List Profile :=
  match st with
  | _ :: s1 :: _ =>
    let p1 := removeCand s1.eliminated.flatten p
    let ω' : STVOracle := { pri := fun r => ω.pri (r + 1), sample := fun r => ω.sample (r + 1) }
    match stvRun { cfg with m := m2.toNat } p1 ω' with
    | .ok r => p :: r.profiles
    | _ => [p, p1]
  | _ => [p]

/-- dictator rules: remove the winners one after the other -/
def sequentialProfiles (p : Profile) : States → List Profile
  | [] => []
  | s :: rest => 
    let p' := removeCand s.elected.flatten p
    p' :: sequentialProfiles p' rest

/-- `get_profile(r)` -/
def getProfile (profiles : List Profile) (r : Int) : Outcome Profile := do
  let k ← normIndex profiles.length r
  match profiles[k]? with
  | some p => pure p
  | none => .raised .indexError

end VK
