/-
  VK.Model.BallotGraphRec — `BallotGraph.build_graph` as the code builds it: recursively, the graph on
  n candidates from n relabelled copies of the graph on n-1 (one per first choice), the bullet-vote
  nodes, and the edges that swap the first two entries. `Props/C19Rec` proves that for every n this
  is the specified graph (`BallotGraph.lean`): same nodes, same adjacency.
-/
import VK.Model.BallotGraph
namespace VK

/-- `_relabel`'s arithmetic: add the new first choice to every entry and wrap around past `n` -/
def shift (i n y : Nat) : Nat := if i + y > n then i + y - n else i + y

/-- `_relabel(gr, new_label = i, num_cands = n)` on one node -/
def relabel (i n : Nat) (k : List Nat) : List Nat := i :: k.map (shift i n)

/-- the ballot with its first two entries exchanged: `(bal[1], bal[0]) + bal[2:]` -/
def swap01 : List Nat → List Nat
  | a :: b :: rest => b :: a :: rest
  | l => l

structure RecGraph where
  nodes : List (List Nat)
  edges : List (List Nat × List Nat)     -- as added; orientation and repetition do not matter (networkx Graph)
  deriving Repr

/-- what one value of the loop variable `i` contributes for the graph on `n` candidates -/
def cornerOf (prev : RecGraph) (n i : Nat) : List (List Nat) × List (List Nat × List Nat) :=
  let cn := prev.nodes.map (relabel i n)
  let ce := prev.edges.map (fun e => (relabel i n e.1, relabel i n e.2))
  let be := (if n = 3 then cn else cn.filter (fun k => k.length = 2)).map (fun k => (k, [i]))
  ([i] :: cn, ce ++ be)

/-- `build_graph(n)` -/
def buildGraph : Nat → RecGraph
  | 0 => ⟨[], []⟩
  | 1 => ⟨[[1]], []⟩
  | 2 => ⟨[[1, 2], [2, 1]], [([1, 2], [2, 1])]⟩
  | n + 3 =>
    let prev := buildGraph (n + 2)
    let parts := ((List.range (n + 3)).map (· + 1)).map (cornerOf prev (n + 3))
    let nodes := parts.flatMap (·.1)
    let edges := parts.flatMap (·.2)
    ⟨nodes, edges ++ (nodes.filter (fun b => b.length ≥ 2)).map (fun b => (b, swap01 b))⟩

/-- canonical edge list of the recursive graph: oriented by `lexLt`, self-loops dropped, no repeats -/
def recEdgesCanon (g : RecGraph) : List (List Nat × List Nat) :=
  (g.edges.filterMap (fun e =>
    if lexLt e.1 e.2 then some (e.1, e.2) else if lexLt e.2 e.1 then some (e.2, e.1) else none)).eraseDups

end VK
