/-
  VK.Model.Gen — mirrors `ballot_generator.py`: every `generate_profile` path as a function of the
  parameters and of the *recorded primitive calls* (numpy.random.choice / uniform / default_rng().dirichlet,
  random.choices / shuffle / random, apportionment.compute).

  Two layers:
  * pure builders (`plBallot`, `cumulativeBallot`, `fillPattern`, `alternate`, `sortByDist`, `typeStep`,
    `mcmcStep`, `slateMcmcStep`, `huntingtonHill`) — the subjects of the C14 / C16 theorems;
  * the replay layer `GenM`: walks the call log, checks that each call is the one the documented
    model makes (same population aligned with the same probabilities, same size / replace flags),
    validates each result against the primitive's contract, and assembles the by-bloc profiles.
  No Mathlib import: linked into the compiled driver.
-/
import VK.Model.Interval
import VK.Model.Metric
namespace VK
namespace Gen

/-! ### pure builders -/

def singletons (l : List Cand) : Ranking := l.map (fun c => [c])

/-- a ranked ballot: the drawn order, then (if any) one tied group -/
def plBallot (draw tied : List Cand) : Ballot :=
  { ranking := singletons draw ++ (if tied.isEmpty then [] else [sortCands tied]), weight := 1, scores := [] }

/-- multiplicity of `c` in a draw with replacement -/
def countOf (c : Cand) (l : List Cand) : Nat := (l.filter (· = c)).length

/-- `name_Cumulative`: one point per draw -/
def cumulativeBallot (draw : List Cand) : Ballot :=
  { ranking := [], weight := 1,
    scores := (sortCands draw).map (fun c => (c, ((countOf c draw : Nat) : Rat))) }

/-- replace the `i`-th list by its tail -/
def popAt : List (List Cand) → Nat → List (List Cand)
  | [], _ => []
  | l :: ls, 0 => l.tail :: ls
  | l :: ls, i + 1 => l :: popAt ls i

/-- fill a slate pattern with the per-slate candidate orders (`cand_ordering_by_bloc[b].pop(0)`);
`none` when a slate runs out of candidates (KeyError / IndexError in the code) -/
def fillPattern : List Nat → List (List Cand) → Option (List Cand)
  | [], _ => some []
  | s :: rest, orders =>
    match orders[s]? with
    | some (c :: _) => (fillPattern rest (popAt orders s)).map (c :: ·)
    | _ => none

/-- the Cambridge fill: a slot whose slate is used up is skipped -/
def fillSkipping : List Nat → List (List Cand) → List Cand
  | [], _ => []
  | s :: rest, orders =>
    match orders[s]? with
    | some (c :: _) => c :: fillSkipping rest (popAt orders s)
    | _ => fillSkipping rest orders

/-- `zip(opposing, own)` flattened: crossover ballots alternate, truncated to the shorter slate -/
def alternate : List Cand → List Cand → List Cand
  | o :: os, b :: bs => o :: b :: alternate os bs
  | _, _ => []

/-- stable insertion of `(c, d)` by distance: before the first entry that is not closer (entries already
in the list come later in the original order) -/
def insertByDist (c : Cand) (d : Rat) : List (Cand × Rat) → List (Cand × Rat)
  | [] => [(c, d)]
  | (c', d') :: rest => if d ≤ d' then (c, d) :: (c', d') :: rest else (c', d') :: insertByDist c d rest

/-- `sorted(distance_dict, key=distance_dict.__getitem__)`: stable sort of the candidates by distance -/
def sortByDist (cds : List (Cand × Rat)) : List (Cand × Rat) :=
  cds.foldr (fun cd acc => insertByDist cd.1 cd.2 acc) []

def prefixSums : List Rat → List Rat
  | vs => go 0 vs
where go (acc : Rat) : List Rat → List Rat
  | [] => [acc]
  | v :: rest => acc :: go (acc + v) rest

/-- `which_bin`: the index `i` with `bins[i] < flip ≤ bins[i+1]` -/
def whichBin : List Rat → Rat → Option Nat
  | lo :: hi :: rest, flip =>
    if decide (lo < flip) && decide (flip ≤ hi) then some 0
    else (whichBin (hi :: rest) flip).map (· + 1)
  | _, _ => none

def eraseAt {α} : List α → Nat → List α
  | [], _ => []
  | _ :: xs, 0 => xs
  | x :: xs, i + 1 => x :: eraseAt xs i

/-- state of `sample_cohesion_ballot_types` inside one ballot -/
structure TypeState where
  slates : List Nat        -- slates that still have a candidate left, in order
  values : List Rat        -- their (renormalised) cohesion weights
  acc : List Nat           -- pattern so far
  deriving Repr

inductive TypeStep where
  | continue (s : TypeState)
  | shuffleRest (acc : List Nat) (remaining : List Nat)   -- all other slates have weight 0
  | stuck                                                  -- flip fell outside every bin
  deriving Repr

/-- one coin flip of `sample_cohesion_ballot_types` -/
def typeStep (sizes : List Nat) (st : TypeState) (flip : Rat) : TypeStep :=
  match whichBin (prefixSums st.values) flip with
  | none => .stuck
  | some bi =>
    match st.slates[bi]? with
    | none => .stuck
    | some s =>
      let acc' := st.acc ++ [s]
      if (acc'.filter (· = s)).length = (sizes[s]?).getD 0 then
        let slates' := eraseAt st.slates bi
        let values' := eraseAt st.values bi
        let total := rsum values'
        if total = 0 && !values'.isEmpty then
          .shuffleRest acc' (slates'.flatMap (fun b => List.replicate ((sizes[b]?).getD 0) b))
        else if total = 0 then .continue { slates := slates', values := values', acc := acc' }
        else .continue { slates := slates', values := values'.map (· / total), acc := acc' }
      else .continue { st with acc := acc' }

def swapAt {α} : List α → Nat → List α
  | a :: b :: rest, 0 => b :: a :: rest
  | a :: rest, j + 1 => a :: swapAt rest j
  | l, _ => l

def rmin (a b : Rat) : Rat := if a ≤ b then a else b

/-- acceptance probability of the name-BT chain for the adjacent swap at `j`: min(1, x_{r[j+1]} / x_{r[j]}) -/
def btAccept (x : List (Cand × Rat)) (r : List Cand) (j : Nat) : Option Rat :=
  match r[j]?, r[j + 1]? with
  | some a, some b =>
    let xa := lookupScore x a
    if xa = 0 then none else some (rmin 1 (lookupScore x b / xa))
  | _, _ => none

/-- one step of `_BT_mcmc` -/
def mcmcStep (x : List (Cand × Rat)) (r : List Cand) (j : Nat) (u : Rat) : Option (List Cand) :=
  (btAccept x r j).map (fun a => if u < a then swapAt r j else r)

/-- acceptance probability of the slate-BT chain (own slate = `true`), cohesion `c`:
own-above-other → other-above-own with min(1, (1-c)/c); the reverse with min(1, c/(1-c)); equal → 1 -/
def slateAccept (c : Rat) (t : List Bool) (j : Nat) : Option Rat :=
  match t[j]?, t[j + 1]? with
  | some true, some false => some (if c = 0 then 1 else rmin 1 ((1 - c) / c))
  | some false, some true => some (if c = 1 then 1 else rmin 1 (c / (1 - c)))
  | some _, some _ => some 1
  | _, _ => none

def slateMcmcStep (c : Rat) (t : List Bool) (j : Nat) (u : Rat) : Option (List Bool) :=
  (slateAccept c t j).map (fun a => if u < a then swapAt t j else t)

/-- `itertools.permutations(l)`: lexicographic by position -/
def permsLex : Nat → List Cand → List (List Cand)
  | 0, _ => [[]]
  | fuel + 1, l =>
    if l.isEmpty then [[]]
    else (List.range l.length).flatMap (fun i =>
      match l[i]? with
      | some x => (permsLex fuel (eraseAt l i)).map (x :: ·)
      | none => [])

/-! ### Huntington–Hill (specification of the apportionment the generators ask for) -/

/-- priority of a party with weight `v` holding `s` seats is `v² / (s (s+1))`, infinite for `s = 0`;
compared without division: (`s = 0`, v) before everything else. -/
def hhBetter (v1 : Rat) (s1 : Nat) (v2 : Rat) (s2 : Nat) : Bool :=
  match s1, s2 with
  | 0, 0 => decide (v2 < v1)
  | 0, _ => true
  | _, 0 => false
  | _, _ => decide (v2 * v2 * ((s1 * (s1 + 1) : Nat) : Rat) < v1 * v1 * ((s2 * (s2 + 1) : Nat) : Rat))

def hhSame (v1 : Rat) (s1 : Nat) (v2 : Rat) (s2 : Nat) : Bool :=
  !hhBetter v1 s1 v2 s2 && !hhBetter v2 s2 v1 s1

/-- index of the best party (first among equals), and whether the best priority is shared -/
def hhPick (vs : List (Rat × Nat)) : Option (Nat × Bool) :=
  let idx := (List.range vs.length).filter (fun i => match vs[i]? with | some (v, _) => decide (0 < v) | none => false)
  match idx with
  | [] => none
  | i0 :: rest =>
    let best := rest.foldl (fun b i =>
      match vs[b]?, vs[i]? with
      | some (vb, sb), some (vi, si) => if hhBetter vi si vb sb then i else b
      | _, _ => b) i0
    let tie := idx.any (fun i => i ≠ best &&
      (match vs[best]?, vs[i]? with
       | some (vb, sb), some (vi, si) => hhSame vb sb vi si
       | _, _ => false))
    some (best, tie)

def bumpAt : List (Rat × Nat) → Nat → List (Rat × Nat)
  | [], _ => []
  | (v, s) :: rest, 0 => (v, s + 1) :: rest
  | x :: rest, i + 1 => x :: bumpAt rest i

/-- hand out `n` seats one at a time -/
def hhLoop : Nat → List (Rat × Nat) → Bool → List (Rat × Nat) × Bool
  | 0, vs, tie => (vs, tie)
  | n + 1, vs, tie =>
    match hhPick vs with
    | none => (vs, tie)
    | some (i, t) => hhLoop n (bumpAt vs i) (tie || t)

def huntingtonHill (props : List Rat) (n : Nat) : List Nat × Bool :=
  let r := hhLoop n (props.map (fun v => (v, 0))) false
  (r.1.map (·.2), r.2)

/-! ### replay layer -/

inductive Call where
  | choice (pop : List Cand) (p : Option (List Rat)) (k : Option Nat) (replace : Bool) (res : List Cand)
  | choiceIdx (n : Nat) (p : Option (List Rat)) (size : Option Nat) (res : List Nat)
  | uniform (res : List Rat)
  | shuffle (x res : List Nat)
  | choices (pop : List (List Nat)) (weights : Option (List Rat)) (k : Nat) (res : List (List Nat))
  | random (res : Rat)
  | apportion (props : List Rat) (n : Nat) (res : List Nat)
  | dirichlet (alpha res : List Rat)
  | normal (size : Option Nat) (res : List Rat)
  deriving Repr

def Call.name : Call → String
  | .choice .. => "choice" | .choiceIdx .. => "choice_idx" | .uniform .. => "uniform" | .shuffle .. => "shuffle"
  | .choices .. => "choices" | .random .. => "random" | .apportion .. => "apportion" | .dirichlet .. => "dirichlet"
  | .normal .. => "normal"

abbrev GenM := StateT (List Call) (Except String)

def bad {α} (msg : String) : GenM α := throw msg

def next (what : String) : GenM Call := do
  match (← get) with
  | [] => bad s!"log exhausted: expected {what}"
  | c :: cs => set cs; pure c

def closeR (a b : Rat) : Bool :=
  decide (rabs (a - b) ≤ rabs b / 1000000000 + 1 / 1000000000000000000000000000000)

def closeL : List Rat → List Rat → Bool
  | [], [] => true
  | a :: as, b :: bs => closeR a b && closeL as bs
  | _, _ => false

/-- the call's population/probabilities are the expected ones as an aligned set -/
def alignedClose (exp : List (Cand × Rat)) (pop : List Cand) (p : List Rat) : Bool :=
  pop.length = p.length && pop.length = exp.length && !hasDup pop &&
  (pop.zip p).all (fun cp => match exp.find? (fun e => e.1 = cp.1) with
    | some e => closeR cp.2 e.2
    | none => false)

def sameSet (a b : List Cand) : Bool := a.length = b.length && !hasDup a && a.all (b.contains ·)

/-- `np.random.choice(pop, k, p=…, replace=…)` over the pairs `exp` -/
def expectChoice (exp : List (Cand × Rat)) (k : Nat) (replace : Bool) (what : String) : GenM (List Cand) := do
  match ← next what with
  | .choice pop (some p) (some k') rep res =>
    if rep != replace then bad s!"{what}: replace flag {rep}"
    else if k' ≠ k then bad s!"{what}: size {k'} expected {k}"
    else if !alignedClose exp pop p then bad s!"{what}: population / probabilities are not the documented interval"
    else if res.length ≠ k then bad s!"{what}: result length"
    else if !res.all (fun c => exp.any (fun e => e.1 = c && decide (0 < e.2))) then bad s!"{what}: result outside the support"
    else if !replace && hasDup res then bad s!"{what}: repeated element without replacement"
    else pure res
  | c => bad s!"{what}: got call {c.name}"

/-- `np.random.choice(pop, k, replace=False)` without probabilities -/
def expectChoiceU (exp : List Cand) (k : Nat) (what : String) : GenM (List Cand) := do
  match ← next what with
  | .choice pop none (some k') false res =>
    if k' ≠ k then bad s!"{what}: size {k'} expected {k}"
    else if !sameSet pop exp then bad s!"{what}: population"
    else if res.length ≠ k || hasDup res || !res.all (exp.contains ·) then bad s!"{what}: result"
    else pure res
  | c => bad s!"{what}: got call {c.name}"

/-- `np.random.choice(n, size=…, p=…)` -/
def expectChoiceIdx (n : Nat) (p : Option (List Rat)) (size : Nat) (what : String) : GenM (List Nat) := do
  match ← next what with
  | .choiceIdx n' p' (some size') res =>
    if n' ≠ n then bad s!"{what}: a = {n'} expected {n}"
    else if size' ≠ size then bad s!"{what}: size {size'} expected {size}"
    else if res.length ≠ size || !res.all (· < n) then bad s!"{what}: result"
    else match p, p' with
      | none, none => pure res
      | some e, some g =>
        if !closeL g e then bad s!"{what}: probability vector is not the documented one"
        else if !res.all (fun i => match e[i]? with | some q => decide (0 < q) | none => false) then bad s!"{what}: drew a zero-probability index"
        else pure res
      | _, _ => bad s!"{what}: presence of p"
  | c => bad s!"{what}: got call {c.name}"

def expectRandom (what : String) : GenM Rat := do
  match ← next what with
  | .random u => if decide (0 ≤ u) && decide (u < 1) then pure u else bad s!"{what}: value outside [0,1)"
  | c => bad s!"{what}: got call {c.name}"

def expectUniform (size : Nat) (what : String) : GenM (List Rat) := do
  match ← next what with
  | .uniform res => if res.length = size then pure res else bad s!"{what}: size {res.length} expected {size}"
  | c => bad s!"{what}: got call {c.name}"

def isPermNat (a b : List Nat) : Bool :=
  a.length = b.length && a.all (fun x => (a.filter (· = x)).length = (b.filter (· = x)).length)

def expectShuffle (x : List Nat) (what : String) : GenM (List Nat) := do
  match ← next what with
  | .shuffle x' res =>
    if !isPermNat x' x then bad s!"{what}: shuffled list"
    else if !isPermNat res x then bad s!"{what}: result is not a permutation"
    else pure res
  | c => bad s!"{what}: got call {c.name}"

def sumNat (l : List Nat) : Nat := l.foldl (· + ·) 0

/-- `apportion.compute("huntington", props, N)`; contract: one natural per party, adding up to N -/
def expectApportion (props : List Rat) (n : Nat) : GenM (List Nat) := do
  match ← next "apportionment" with
  | .apportion props' n' res =>
    if n' ≠ n then bad s!"apportionment of {n'} ballots, expected {n}"
    else if !closeL props' props then bad "apportionment: proportions are not the documented vector"
    else if res.length ≠ props.length || sumNat res ≠ n then bad "apportionment: contract (sizes add up to N)"
    else pure res
  | c => bad s!"apportionment: got call {c.name}"

def liftO {α} (what : String) : Outcome α → GenM α
  | .ok a => pure a
  | .raised _ => bad s!"{what}: raises"
  | _ => bad s!"{what}: no value"

structure Params where
  kind : String
  slates : List (List Cand) := []
  cands : List Cand := []
  props : List Rat := []
  cohesion : List (List Rat) := []
  supports : List (List (List (Cand × Rat))) := []
  N : Nat := 0
  L : Nat := 0
  votes : Nat := 0
  tables : List (List (List Cand)) := []
  types : List (List (List Nat)) := []
  seeds : List (List Cand) := []
  point : List (Cand × Rat) := []
  hist : Option (List (List Nat × Rat)) := none
  histLetter : List Nat := []
  dists : List (List Rat) := []
  deriving Repr

def Params.nb (P : Params) : Nat := P.slates.length

def slateInterval (P : Params) (b s : Nat) : GenM Interval :=
  match P.supports[b]? with
  | some row => match row[s]? with
    | some sup => liftO "interval" (mkInterval sup)
    | none => bad "missing supports"
  | none => bad "missing supports"

def blocIntervals (P : Params) (b : Nat) : GenM (List Interval) :=
  (List.range P.nb).mapM (slateInterval P b)

def combined (P : Params) (b : Nat) : GenM Interval := do
  let ivs ← blocIntervals P b
  liftO "combined interval" (combineIntervals ivs ((P.cohesion[b]?).getD []))

def crossProps (P : Params) : List Rat :=
  (List.range P.nb).flatMap (fun b =>
    let c := (((P.cohesion[b]?).getD [])[b]?).getD 0
    let q := (P.props[b]?).getD 0
    [c * q, (1 - c) * q])

def forBlocs {α} (P : Params) (counts : List Nat) (f : Nat → Nat → GenM α) : GenM (List α) :=
  ((List.range P.nb).zip counts).mapM (fun bc => f bc.1 bc.2)

def repeatM {α} (n : Nat) (f : Nat → GenM α) : GenM (List α) := (List.range n).mapM f

/-- name / short-name Plackett–Luce -/
def runPL (P : Params) (L : Nat) : GenM (List (List Ballot)) := do
  let counts ← expectApportion P.props P.N
  forBlocs P counts (fun b cnt => do
    let iv ← combined P b
    let nz := iv.interval
    let k := min L nz.length
    let tied := L - nz.length
    repeatM cnt (fun i => do
      let d ← expectChoice nz k false s!"bloc {b} ballot {i}: ranking draw"
      let t ← if tied > 0 then expectChoiceU iv.zeros tied s!"bloc {b} ballot {i}: tied zero-support draw" else pure []
      pure (plBallot d t)))

def isPermOf (a b : List Cand) : Bool := sameSet a b

/-- name Bradley–Terry, exact table -/
def runBT (P : Params) : GenM (List (List Ballot)) := do
  let counts ← expectApportion P.props P.N
  forBlocs P counts (fun b cnt => do
    let iv ← combined P b
    let pdf := btPdf iv.interval
    let table := (P.tables[b]?).getD []
    if table.length ≠ pdf.length || !table.all (fun r => pdf.any (fun e => e.1 = r)) then
      bad s!"bloc {b}: table keys are not the orders of the supported candidates"
    else
      let probs := table.map (fun r => match pdf.find? (fun e => e.1 = r) with | some e => e.2 | none => 0)
      let idx ← expectChoiceIdx table.length (some probs) cnt s!"bloc {b}: table draw"
      idx.mapM (fun i => match table[i]? with
        | some r => pure (plBallot r iv.zeros)
        | none => bad "index"))

/-- name Bradley–Terry, MCMC -/
def runBTmcmc (P : Params) : GenM (List (List Ballot)) := do
  let counts ← expectApportion P.props P.N
  forBlocs P counts (fun b cnt => do
    let iv ← combined P b
    let seed := (P.seeds[b]?).getD []
    if !isPermOf seed (iv.interval.map (·.1)) then bad s!"bloc {b}: seed ballot is not an order of the supported candidates"
    else
      let n := seed.length
      match ← next s!"bloc {b}: swap indices" with
      | .choices pop none k res =>
        if pop ≠ (List.range (n - 1)).map (fun i => [i]) || k ≠ cnt || res.length ≠ cnt then bad s!"bloc {b}: swap index draw"
        else
          let rec loop (cur : List Cand) : List (List Nat) → Nat → GenM (List Ballot)
            | [], _ => pure []
            | [j] :: rest, i => do
              let u ← expectRandom s!"bloc {b} step {i}: acceptance draw"
              match mcmcStep iv.interval cur j u with
              | some nxt => do
                let tl ← loop nxt rest (i + 1)
                pure (plBallot nxt iv.zeros :: tl)
              | none => bad "swap index out of range"
            | _ :: _, _ => bad "swap index"
          loop seed res 0
      | c => bad s!"bloc {b}: swap indices: got call {c.name}")

/-- AlternatingCrossover (two blocs) -/
def runAC (P : Params) : GenM (List (List Ballot)) := do
  let counts ← expectApportion (crossProps P) P.N
  (List.range P.nb).mapM (fun b => do
    let nBloc := (counts[2 * b]?).getD 0
    let nCross := (counts[2 * b + 1]?).getD 0
    let opp := (b + 1) % 2
    let own ← slateInterval P b b
    let other ← slateInterval P b opp
    repeatM (nCross + nBloc) (fun i => do
      let bc ← expectChoice own.interval own.interval.length false s!"bloc {b} ballot {i}: own slate order"
      let oc ← expectChoice other.interval other.interval.length false s!"bloc {b} ballot {i}: opposing slate order"
      pure (if i < nCross then plBallot (alternate oc bc) [] else plBallot (bc ++ oc) [])))

def expectTypes (pool : Option (List (List Nat × Rat))) (k : Nat) (what : String) : GenM (List (List Nat)) := do
  match ← next what with
  | .choices pop (some w) k' res =>
    if k' ≠ k || res.length ≠ k then bad s!"{what}: k"
    else match pool with
      | none => pure res     -- historical data file: population and weights are checked by the harness against the pickle
      | some pl =>
        let tot := rsum (pl.map (·.2))
        if pop ≠ pl.map (·.1) || !closeL w (pl.map (fun tf => tf.2 / tot)) then bad s!"{what}: population / weights are not the historical frequencies"
        else if res.all (pop.contains ·) then pure res else bad s!"{what}: result outside the population"
  | c => bad s!"{what}: got call {c.name}"

/-- CambridgeSampler (two blocs) -/
def runCambridge (P : Params) : GenM (List (List Ballot)) := do
  let counts ← expectApportion (crossProps P) P.N
  (List.range P.nb).mapM (fun b => do
    let bv := (counts[2 * b]?).getD 0
    let cv := (counts[2 * b + 1]?).getD 0
    let opp := (b + 1) % 2
    let letter := fun j => (P.histLetter[j]?).getD 0
    let c := (((P.cohesion[b]?).getD [])[b]?).getD 0
    -- the bloc's own slate carries the share `c`, the opposing slate `1 - c` (looked up by name; after repair F-C14-c)
    let ownIv ← slateInterval P b b
    let oppIv ← slateInterval P b opp
    let comb ← liftO "combined interval" (combineIntervals [ownIv, oppIv] [c, 1 - c])
    let pool := fun (l : Nat) => P.hist.map (fun h => h.filter (fun tf => tf.1.head? = some l))
    let t1 ← expectTypes (pool (letter b)) bv s!"bloc {b}: bloc-first types"
    let t2 ← expectTypes (pool (letter opp)) cv s!"bloc {b}: opposing-first types"
    let ownSlate := (P.slates[b]?).getD []
    let oppSlate := (P.slates[opp]?).getD []
    (t1 ++ t2).mapM (fun ty => do
      let pl ← expectChoice comb.interval comb.interval.length false s!"bloc {b}: candidate order"
      let ownO := pl.filter (ownSlate.contains ·)
      let oppO := pl.filter (oppSlate.contains ·)
      -- slot 0 = own slate, slot 1 = opposing slate
      pure (plBallot (fillSkipping (ty.map (fun l => if l = letter b then 0 else 1)) [ownO, oppO]) [])))

def runCumulative (P : Params) : GenM (List (List Ballot)) := do
  let counts ← expectApportion P.props P.N
  forBlocs P counts (fun b cnt => do
    let iv ← combined P b
    repeatM cnt (fun i => do
      let d ← expectChoice iv.interval P.votes true s!"bloc {b} ballot {i}: votes"
      pure (cumulativeBallot d)))

/-- candidate orders for every slate, then fill the pattern and append the zero-support tie -/
def fillBallot (P : Params) (b : Nat) (ivs : List Interval) (zeros : List Cand) (ty : List Nat) (what : String) :
    GenM Ballot := do
  let orders ← ((List.range P.nb).zip ivs).mapM (fun si =>
    if si.2.interval.isEmpty then pure []
    else expectChoice si.2.interval si.2.interval.length false s!"{what}: slate {si.1} order")
  match fillPattern ty orders with
  | some r => pure (plBallot r zeros)
  | none => bad s!"{what}: pattern asks for more candidates than a slate has (bloc {b})"

/-- the patterns of one bloc from its flips (`sample_cohesion_ballot_types`) -/
def sampleTypes (sizes : List Nat) (slates : List Nat) (values : List Rat) (per : Nat) :
    Nat → List Rat → GenM (List (List Nat))
  | 0, _ => pure []
  | cnt + 1, flips => do
    let mine := flips.take per
    let rec one (st : TypeState) : List Rat → GenM (List Nat)
      | [] => pure st.acc
      | f :: rest =>
        match typeStep sizes st f with
        | .continue st' => one st' rest
        | .shuffleRest acc remaining => do
          let sh ← expectShuffle remaining "shuffle of the zero-cohesion slates"
          pure (acc ++ sh)
        | .stuck => bad "a coin flip fell outside every bin"
    let ty ← one { slates := slates, values := values, acc := [] } mine
    let rest ← sampleTypes sizes slates values per cnt (flips.drop per)
    pure (ty :: rest)

def runSlatePL (P : Params) : GenM (List (List Ballot)) := do
  let counts ← expectApportion P.props P.N
  forBlocs P counts (fun b cnt => do
    let ivs ← blocIntervals P b
    let zeros := ivs.flatMap (·.zeros)
    let sizes := ivs.map (·.interval.length)
    let per := sumNat sizes
    let flips ← expectUniform (per * cnt) s!"bloc {b}: coin flips"
    let types ← sampleTypes sizes (List.range P.nb) ((P.cohesion[b]?).getD []) per cnt flips
    types.mapM (fun ty => fillBallot P b ivs zeros ty s!"bloc {b}"))

def boolsOf (b : Nat) (ty : List Nat) : List Bool := ty.map (· = b)

def runSlateBT (P : Params) (mcmc : Bool) : GenM (List (List Ballot)) := do
  let counts ← expectApportion P.props P.N
  forBlocs P counts (fun b cnt => do
    let ivs ← blocIntervals P b
    let zeros := ivs.flatMap (·.zeros)
    let sizes := ivs.map (·.interval.length)
    let c := (((P.cohesion[b]?).getD [])[b]?).getD 0
    let types ←
      if mcmc then do
        let seed := (List.range P.nb).flatMap (fun s => List.replicate ((sizes[s]?).getD 0) s)
        let js ← expectChoiceIdx (seed.length - 1) none cnt s!"bloc {b}: swap indices"
        let rec loop (cur : List Nat) : List Nat → Nat → GenM (List (List Nat))
          | [], _ => pure []
          | j :: rest, i => do
            let u ← expectRandom s!"bloc {b} step {i}: acceptance draw"
            match slateMcmcStep c (boolsOf b cur) j u with
            | some nb =>
              let nxt := if nb = boolsOf b cur then cur else swapAt cur j
              let tl ← loop nxt rest (i + 1)
              pure (nxt :: tl)
            | none => bad "swap index out of range"
        loop seed js 0
      else do
        let table := (P.types[b]?).getD []
        let own := (sizes[b]?).getD 0
        let other := sumNat sizes - own
        let pdf := if P.nb = 1 then [(List.replicate own true, (1 : Rat))] else slateBtPdf own other c
        if table.length ≠ pdf.length || !table.all (fun t => pdf.any (fun e => e.1 = boolsOf b t)) then
          bad s!"bloc {b}: ballot-type table keys"
        else
          let probs := table.map (fun t => match pdf.find? (fun e => e.1 = boolsOf b t) with | some e => e.2 | none => 0)
          let idx ← expectChoiceIdx table.length (some probs) cnt s!"bloc {b}: type draw"
          idx.mapM (fun i => match table[i]? with | some t => pure t | none => bad "index")
    types.mapM (fun ty => fillBallot P b ivs zeros ty s!"bloc {b}"))

def expectDirichlet (n : Nat) (alpha : Rat) (uniformWithin : Option Rat) : GenM (List Rat) := do
  match ← next "dirichlet" with
  | .dirichlet a res =>
    if a.length ≠ n || !a.all (closeR · alpha) then bad "dirichlet: alpha"
    else if res.length ≠ n || !res.all (fun x => decide (0 ≤ x)) || !closeR (rsum res) 1 then bad "dirichlet: not a probability vector"
    else match uniformWithin with
      | some eps => if res.all (fun x => decide (rabs (x - 1 / (n : Rat)) ≤ eps)) then pure res else bad "dirichlet(1e20): not uniform"
      | none => pure res
  | c => bad s!"dirichlet: got call {c.name}"

def runSimplex (P : Params) : GenM (List Ballot) := do
  let perms := permsLex P.cands.length P.cands
  let n := perms.length
  let probs ←
    if P.kind = "ic" then expectDirichlet n 100000000000000000000 (some (1 / 1000000))
    else if P.kind = "iac" then expectDirichlet n 1 none
    else do
      let w := perms.map (fun r => (r.map (lookupScore P.point)).foldl (· * ·) 1)
      let tot := rsum w
      if tot = 0 then bad "point: zero total" else pure (w.map (· / tot))
  let idx ← expectChoiceIdx n (some probs) P.N "ranking draw"
  idx.mapM (fun i => match perms[i]? with | some r => pure (plBallot r []) | none => bad "index")

def runSpatial (P : Params) : GenM (List Ballot) := do
  if P.kind = "onedim" then
    let _ ← repeatM P.cands.length (fun _ => do
      match ← next "candidate position" with
      | .normal none [_] => pure ()
      | c => bad s!"candidate position: got call {c.name}")
    match ← next "voter positions" with
    | .normal (some k) res => if k = P.N && res.length = P.N then pure () else bad "voter positions: size"
    | c => bad s!"voter positions: got call {c.name}"
  P.dists.mapM (fun d =>
    if d.length ≠ P.cands.length then bad "distance row"
    else pure (plBallot ((sortByDist (P.cands.zip d)).map (·.1)) []))

structure GenOut where
  byBloc : List (List Ballot)
  agg : List Ballot
  deriving Repr

def run (P : Params) (log : List Call) : Except String GenOut := do
  let go : GenM GenOut := do
    let blocKinds := ["pl", "short_pl", "bt", "bt_mcmc", "ac", "cambridge", "cumulative", "slate_pl", "slate_bt", "slate_bt_mcmc"]
    let out ←
      if blocKinds.contains P.kind then do
        let bb ← match P.kind with
          | "pl" => runPL P (P.slates.flatten.length)
          | "short_pl" => runPL P P.L
          | "bt" => runBT P
          | "bt_mcmc" => runBTmcmc P
          | "ac" => runAC P
          | "cambridge" => runCambridge P
          | "cumulative" => runCumulative P
          | "slate_pl" => runSlatePL P
          | "slate_bt" => runSlateBT P false
          | _ => runSlateBT P true
        pure { byBloc := bb.map condense, agg := condense bb.flatten : GenOut }
      else if ["point", "ic", "iac"].contains P.kind then do
        let bs ← runSimplex P
        pure { byBloc := [], agg := condense bs }
      else do
        let bs ← runSpatial P
        pure { byBloc := [], agg := condense bs }
    match (← get) with
    | [] => pure out
    | c :: _ => bad s!"unexpected extra call {c.name}"
  match go.run log with
  | .ok (o, _) => .ok o
  | .error e => .error e

end Gen
end VK
