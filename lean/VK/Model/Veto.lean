/-
  VK.Model.Veto — `PluralityVeto` (elections/election_types/ranking/plurality_veto.py).

  The rule keeps, besides the profile, a list of unit ballots aligned with a random processing
  order (`random_order`, circularly shifted after every round), and in every round lets the voters
  in that order strike one point off the candidate in their last surviving position until some
  candidate's tally (the first-place votes recorded for the PREVIOUS round, copied afresh each
  round) reaches zero.  Round 1 additionally drops every candidate without first-place votes.

  Oracle: the result of `numpy.random.shuffle` (the processing order) and the stream of
  `random.sample` results in call order (one per group that a tiebreak leaves tied).
-/
import VK.Model.Validate
namespace VK

/-- `tiebroken_ranking(new_ranking, tiebreak="random")` over a stream of recorded samples: every
group of more than one candidate consumes the next sample, which must order exactly that group -/
def breakGroupsS : List (List Cand) → Ranking → Outcome (Ranking × List (List Cand))
  | smp, [] => .ok ([], smp)
  | smp, g :: gs =>
    if g.length ≤ 1 then do
      let (b, s') ← breakGroupsS smp gs
      pure (g :: b, s')
    else match smp with
      | [] => .oracleMismatch
      | x :: xs => do
        let o ← orderBy x g
        let (b, s') ← breakGroupsS xs gs
        pure (o.map (fun c => [c]) ++ b, s')

/-- `tiebreak_set(r_set, profile, tiebreak)` with the random draws taken from a stream -/
def tiebreakSetS (smp : List (List Cand)) (s : List Cand) (p : Profile) (tb : TB) :
    Outcome (Ranking × List (List Cand)) :=
  match tb with
  | .random =>
    match smp with
    | [] => .oracleMismatch
    | x :: xs => do
      let o ← orderBy x s
      pure (o.map (fun c => [c]), xs)
  | tb => do
    let sc ← if tb = .borda then bordaScores p else firstPlaceVotes p
    let sc' := sc.filter (fun cs => s.contains cs.1)
    breakGroupsS smp (scoreToRanking sc')

structure PVOracle where
  order : List Nat := []
  samples : List (List Cand) := []
  deriving Repr

/-- the mutable fields of the election object between rounds -/
structure PVState where
  prof : Profile               -- the profile handed from round to round (unit ballots, aligned)
  order : List Nat             -- `random_order`
  elim : List Cand             -- candidates whose `eliminated_dict` entry is True
  samples : List (List Cand)   -- unread part of the sample stream
  deriving Repr

/-- decrement the tally of `c`; `new_scores[c] -= 1` raises KeyError for an unknown candidate -/
def decScore (c : Cand) : List (Cand × Rat) → Outcome (List (Cand × Rat) × Rat)
  | [] => .raised .keyError
  | (d, s) :: rest =>
    if d = c then .ok ((d, s - 1) :: rest, s - 1)
    else do
      let (r, v) ← decScore c rest
      pure ((d, s) :: r, v)

/-- result of the veto loop of one round -/
structure VetoOut where
  struck : Option Cand                     -- the candidate whose tally reached zero (loop broke)
  index : Nat                              -- `rand_index` when the loop ended
  samples : List (List Cand)
  tiebreaks : List (List Cand × Ranking)   -- the dict is overwritten by every tie: last one only
  deriving Repr

/-- the profile a last-place tie is scored on (`tiebreak_profile`): the working profile without its
rankless placeholder ballots, same declared candidates -/
def tiebreakProfile (p : Profile) : Profile :=
  { ballots := p.ballots.filter (fun b => !b.ranking.isEmpty), cands := p.cands }

/-- `for rand_index, ballot_index in enumerate(self.random_order)`; `i` is the index of the head of
`rest`, `last` the index of the previous iteration (what `rand_index` holds if the list ends) -/
def vetoLoop (p : Profile) (tb : Option TB) :
    List Nat → Nat → List (Cand × Rat) → List (List Cand) → List (List Cand × Ranking) →
    Outcome VetoOut
  | [], i, _, smp, tbs =>
    match i with
    | 0 => .raised .unbound                   -- empty order: `rand_index` was never assigned
    | k + 1 => .ok ⟨none, k, smp, tbs⟩
  | bi :: rest, i, sc, smp, tbs =>
    match p.ballots[bi]? with
    | none => .oracleMismatch                 -- the order must index the ballot list
    | some b =>
      match b.ranking.getLast? with
      | none => vetoLoop p tb rest (i + 1) sc smp tbs     -- exhausted ballot: preference_index < 0
      | some lastPos =>
        let step (least : Cand) (smp' : List (List Cand)) (tbs' : List (List Cand × Ranking)) :
            Outcome VetoOut := do
          let (sc', v) ← decScore least sc
          if v ≤ 0 then pure ⟨some least, i, smp', tbs'⟩
          else vetoLoop p tb rest (i + 1) sc' smp' tbs'
        if lastPos.length > 1 then
          match tb with
          | none => .raised .unbound          -- excluded by the constructor (AttributeError)
          | some t => do
            -- after repair F-C01-i the tie is scored on the ballots that still have a ranking
            let (rk, smp') ← tiebreakSetS smp lastPos (tiebreakProfile p) t
            match rk.getLast? with
            | some [c] => step c smp' [(lastPos, rk)]
            | _ => .oracleMismatch
        else
          match lastPos with
          | [c] => step c smp tbs
          | _ => .raised .indexError          -- an empty position: `list(frozenset())[0]`

/-- the profile `first_place_votes` is applied to after a round: non-empty ballots only,
candidates inferred from them -/
def scoreProfile (p : Profile) : Profile :=
  let bs := p.ballots.filter (fun b => !b.ranking.isEmpty)
  { ballots := bs, cands := candsCast bs }

/-- one elimination round (`else` branch of `_run_step`) -/
def pvRound (tb : Option TB) (st : PVState) (prev : RoundState) : Outcome (PVState × RoundState) := do
  let zero := if prev.round = 0 then (prev.scores.filter (fun cs => cs.2 ≤ 0)).map (·.1) else []
  let out ← vetoLoop st.prof tb st.order 0 prev.scores st.samples []
  let elimNow := match out.struck with
    | some c => zero ++ [c]
    | none => zero
  let order' := st.order.drop (out.index + 1) ++ st.order.take (out.index + 1)
  let p' := removeCand elimNow st.prof (cond := false) (leaveZero := true)
  let sc ← firstPlaceVotes (scoreProfile p')
  let elimSet := sortCands elimNow
  pure ({ prof := p', order := order', elim := sortCands (st.elim ++ elimNow), samples := out.samples },
        { round := prev.round + 1, remaining := scoreToRanking sc, elected := [],
          eliminated := if elimSet.isEmpty then [] else [elimSet],
          tiebreaks := out.tiebreaks, scores := sc })

/-- `_run_election`: loop until `m` candidates are recorded as elected. `acc` is reversed. -/
def pvLoop (m : Nat) (tb : Option TB) (n : Nat) :
    Nat → PVState → RoundState → List RoundState → Outcome States
  | 0, _, _, _ => .outOfFuel
  | fuel + 1, st, prev, acc =>
    if n - st.elim.length = m then
      -- remaining_count == m: everybody still listed as remaining is elected; this ends the loop
      -- as soon as those are at least m candidates
      let fin : RoundState := { round := prev.round + 1, elected := prev.remaining }
      let acc' := fin :: acc
      if (electedOf acc').length ≥ m then
        -- every recorded draw must have been asked for
        if st.samples.isEmpty then .ok acc'.reverse else .oracleMismatch
      else pvLoop m tb n fuel st fin acc'
    else do
      let (st', s) ← pvRound tb st prev
      pvLoop m tb n fuel st' s (s :: acc)

/-- decondensing: every ballot becomes `int(weight)` unit ballots carrying only its ranking -/
def decondense (bs : List Ballot) : List Ballot :=
  bs.flatMap (fun b => List.replicate (b.weight.floor.toNat) { ranking := b.ranking, weight := 1, scores := [] })

/-- `order` must be a rearrangement of `range(k)` -/
def isPermOfRange (order : List Nat) (k : Nat) : Bool :=
  order.length = k && (List.range k).all (fun i => order.contains i)

/-- `PluralityVeto(profile, m, tiebreak)`. Fuel: every elimination round of a run that ends removes a
candidate, so `#candidates + 2` rounds suffice; running out of fuel is the model's rendering of
the implementation's endless loop (finding F-C01-f). -/
def pluralityVetoRun (p : Profile) (m : Int) (tb : Option TB) (ω : PVOracle) : Outcome States := do
  pluralityVetoValidate p m tb
  let bs := decondense p.ballots
  if !isPermOfRange ω.order bs.length then .oracleMismatch
  else do
    let p0 : Profile := { ballots := bs, cands := p.cands }
    let sc0 ← firstPlaceVotes p0
    let st0 := initialState p0.cands (some sc0)
    pvLoop m.toNat tb p.cands.length (p.cands.length + 2)
      { prof := p0, order := ω.order, elim := [], samples := ω.samples } st0 [st0]

end VK
