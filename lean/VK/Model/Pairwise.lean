/-
  VK.Model.Pairwise — mirrors `graphs/pairwise_comparison_graph.py` (ranked ballots, tied positions allowed).

  `h2h` is the *declarative* head-to-head count (listed beats unlisted, two unlisted split evenly).
  The code obtains the same number by expanding every short ballot into all completions
  (`ballot_fill`); `h2hFill` mirrors that enumeration and `Props/C06` relates the two.
-/
import VK.Model.Utils
namespace VK

/-- position of `c` in an untied ranking (flattened), if listed -/
def posOf (r : List Cand) (c : Cand) : Option Nat :=
  let i := r.findIdx (· = c)
  if i < r.length then some i else none

/-- share of one ballot's weight that prefers `a` to `b` -/
def prefShare (r : List Cand) (a b : Cand) : Rat :=
  match posOf r a, posOf r b with
  | some i, some j => if i < j then 1 else 0
  | some _, none => 1
  | none, some _ => 0
  | none, none => 1 / 2

/-- weight preferring `a` to `b`, read off the flattened rankings (untied ballots only; this is the
count the `ballot_fill` enumeration is compared with in `Lemmas/Fill`) -/
def h2hFlat (p : Profile) (a b : Cand) : Rat :=
  rsum (p.ballots.map (fun bl => prefShare bl.ranking.flatten a b * bl.weight))

/-- index of the position (group of tied candidates) `c` stands in, if listed -/
def posOfR (r : Ranking) (c : Cand) : Option Nat :=
  let i := r.findIdx (fun s => s.contains c)
  if i < r.length then some i else none

/-- share of one ballot's weight that prefers `a` to `b`, for rankings with tied positions as well:
candidates tied in one position are ranked neither way (`head2head_count` counts such a ballot for
both, so it cancels in the margin; here they split it evenly) -/
def prefShareR (r : Ranking) (a b : Cand) : Rat :=
  match posOfR r a, posOfR r b with
  | some i, some j => if i < j then 1 else if j < i then 0 else 1 / 2
  | some _, none => 1
  | none, some _ => 0
  | none, none => 1 / 2

/-- weight preferring `a` to `b` -/
def h2h (p : Profile) (a b : Cand) : Rat :=
  rsum (p.ballots.map (fun bl => prefShareR bl.ranking a b * bl.weight))

def margin (p : Profile) (a b : Cand) : Rat := h2h p a b - h2h p b a

/-- `ballot_fill` for one ballot: all completions, each with weight `w / k!` -/
def fillBallot (cands : List Cand) (bl : Ballot) : List (List Cand × Rat) :=
  let r := bl.ranking.flatten
  if bl.ranking.length < cands.length then
    let miss := cands.filter (fun c => !r.contains c)
    (perms miss).map (fun o => (r ++ o, bl.weight / ((perms miss).length : Rat)))
  else [(r, bl.weight)]

/-- `head2head_count` on the filled profile -/
def h2hFill (p : Profile) (a b : Cand) : Rat :=
  rsum ((p.ballots.flatMap (fillBallot p.cands)).map (fun rw =>
    match posOf rw.1 a, posOf rw.1 b with
    | some i, some j => if i < j then rw.2 else 0
    | some _, none => rw.2
    | _, _ => 0))

/-- candidates of the graph: those cast in the filled profile. For valid input (positive weights,
untied ballots over the declared candidates) this is every declared candidate as soon as one
ballot exists, and nobody otherwise. -/
def graphCands (p : Profile) : List Cand := if p.ballots.isEmpty then [] else p.cands

/-- all ordered pairs i<j of a list, as `combinations(l, 2)` -/
def pairs : List Cand → List (Cand × Cand)
  | [] => []
  | x :: xs => xs.map (fun y => (x, y)) ++ pairs xs

/-- `compute_pairwise_dict`: the winner's key carries |margin|; a pairwise tie gives both keys 0 -/
def pairwiseDict (p : Profile) : List ((Cand × Cand) × Rat) :=
  (pairs (graphCands p)).flatMap (fun ab =>
    let d := margin p ab.1 ab.2
    if d = 0 then [((ab.1, ab.2), 0), ((ab.2, ab.1), 0)]
    else if 0 < d then [((ab.1, ab.2), d)] else [((ab.2, ab.1), -d)])

/-- edge of the beats-or-ties digraph -/
def edge (p : Profile) (a b : Cand) : Bool := a != b && decide (0 ≤ margin p a b)

/-- one round of frontier expansion -/
def expand (cands : List Cand) (E : Cand → Cand → Bool) (seen : List Cand) : List Cand :=
  cands.filter (fun b => seen.contains b || seen.any (fun a => E a b))

def iter {α} (f : α → α) : Nat → α → α
  | 0, x => x
  | n + 1, x => iter f n (f x)

/-- candidates reachable from `a` (including `a`) -/
def reach (cands : List Cand) (E : Cand → Cand → Bool) (a : Cand) : List Cand :=
  iter (expand cands E) cands.length (cands.filter (· = a))

def reachCount (cands : List Cand) (E : Cand → Cand → Bool) (a : Cand) : Nat :=
  (reach cands E a).length

/-- group candidates by reach count, largest first (`score_dict_to_ranking`-style grouping on the
counts) -/
def tiersOf (cands : List Cand) (E : Cand → Cand → Bool) : Ranking :=
  scoreToRanking (cands.map (fun c => (c, ((reachCount cands E c : Nat) : Rat)))) true

/-- `dominating_tiers()` -/
def dominatingTiers (p : Profile) : Ranking := tiersOf (graphCands p) (edge p)

def hasCondorcetWinner (p : Profile) : Outcome Bool :=
  match dominatingTiers p with
  | [] => .raised .indexError
  | t :: _ => .ok (t.length = 1)

def condorcetWinner (p : Profile) : Outcome Cand :=
  match dominatingTiers p with
  | [] => .raised .indexError
  | [c] :: _ => .ok c
  | _ => .raised .valueError

end VK
