/-
  VK.Model.Rules — one `run` per election class other than the STV family.
  Mirrors plurality.py, borda.py, top_two.py, alaska.py, dominating_sets.py, condo_borda.py,
  random_dictator.py, boosted_random_dictator.py, scores/rating.py, approval/approval.py.
-/
import VK.Model.STV
import VK.Model.Pairwise
namespace VK

/-- `RankingElection._validate_profile` -/
def rankingValid (p : Profile) : Bool := p.ballots.all (fun b => !b.ranking.isEmpty)

/-! ### single-round "score, then elect the top m" rules -/

/-- common body of Plurality / Borda / GeneralRating `_run_step` + `_run_election` -/
def topMRun (p : Profile) (m : Nat) (tb : Option TB) (pri : List Cand)
    (score : Profile → Outcome (List (Cand × Rat))) : Outcome States := do
  let sc0 ← score p
  let st0 := initialState p.cands (some sc0)
  let r ← electFromRanking pri st0.remaining m (some p) tb
  let p' := removeCand r.elected.flatten p
  let sc1 ← score p'
  pure [st0, { round := 1, remaining := r.remaining, elected := r.elected, eliminated := [],
               tiebreaks := (match r.tiebreak with | some t => [t] | none => []), scores := sc1 }]

/-- `Plurality(profile, m, tiebreak)` (and `SNTV`) -/
def pluralityRun (p : Profile) (m : Nat) (tb : Option TB) (pri : List Cand) : Outcome States :=
  if !rankingValid p then .raised .typeError
  else topMRun p m tb pri firstPlaceVotes

/-- `Borda(profile, m, score_vector, tiebreak)`; `v = none` or an empty vector is the default -/
def bordaRun (p : Profile) (m : Nat) (v : Option (List Rat)) (tb : Option TB) (pri : List Cand) :
    Outcome States :=
  let vec := match v with
    | some (x :: xs) => x :: xs
    | _ => bordaVector p.cands.length
  if !validVector vec then .raised .valueError
  else if !rankingValid p then .raised .typeError
  else topMRun p m tb pri (fun q => scoreFromRankings q vec)

/-! ### score-ballot rules -/

structure RatingCfg where
  m : Nat
  L : Rat
  k : Option Rat
  tiebreak : Option TB
  deriving Repr, DecidableEq

/-- `GeneralRating._validate_profile` for one ballot -/
def ratingBallotOk (L : Rat) (k : Option Rat) (b : Ballot) : Bool :=
  !b.scores.isEmpty &&
  b.scores.all (fun cs => decide (cs.2 ≤ L)) &&
  b.scores.all (fun cs => decide (0 ≤ cs.2)) &&
  (match k with
   | some k => decide (rsum (b.scores.map (·.2)) ≤ k)
   | none => true)

/-- `GeneralRating.__init__` argument checks (m as an integer so that `m ≤ 0` is expressible):
`m > 0`, `L > 0`, and when a budget is given `k > 0` and `L ≤ k` (after repair F-C20 a zero
budget is rejected like any other non-positive one). -/
def ratingArgsOk (m : Int) (L : Rat) (k : Option Rat) : Bool :=
  decide (0 < m) && decide (0 < L) &&
  (match k with
   | some k => decide (0 < k) && decide (L ≤ k)
   | none => true)

def effectiveBudget (k : Option Rat) : Option Rat := k

def generalRatingRun (p : Profile) (m : Int) (L : Rat) (k : Option Rat) (tb : Option TB)
    (pri : List Cand) : Outcome States :=
  if !ratingArgsOk m L k then .raised .valueError
  else if !p.ballots.all (ratingBallotOk L (effectiveBudget k)) then .raised .typeError
  else topMRun p m.toNat tb pri scoreFromBallotScores

inductive ScoreRule where
  | general | rating | limited | cumulative | approval | bloc
  deriving DecidableEq, Repr, Inhabited

/-- the subclasses' parameterisation. `L`/`k` are the user-supplied values where the class takes
them. Limited: `k ≤ m` else ValueError, then `L = k`. Cumulative: `k = m`. Approval: `L = 1`.
BlocPlurality: `L = 1`, `k` or `m`. -/
def scoreRuleRun (rule : ScoreRule) (p : Profile) (m : Int) (L : Rat) (k : Option Rat)
    (tb : Option TB) (pri : List Cand) : Outcome States :=
  match rule with
  | .general => generalRatingRun p m L k tb pri
  | .rating => generalRatingRun p m L none tb pri
  | .limited =>
    let kk := match k with | some k => k | none => 1
    if (m : Rat) < kk then .raised .valueError else generalRatingRun p m kk (some kk) tb pri
  | .cumulative => generalRatingRun p m (m : Rat) (some (m : Rat)) tb pri
  | .approval => generalRatingRun p m 1 none tb pri
  | .bloc =>
    let kk := match k with | some k => k | none => (m : Rat)
    generalRatingRun p m 1 (some kk) tb pri

/-! ### pairwise rules -/

/-- `DominatingSets(profile)` -/
def dominatingSetsRun (p : Profile) : Outcome States :=
  if !rankingValid p then .raised .typeError
  else
    let st0 := initialState p.cands none
    match dominatingTiers p with
    | [] => .raised .indexError
    | t :: rest => .ok [st0, { round := 1, remaining := rest, elected := [t], eliminated := [],
                               tiebreaks := [], scores := [] }]

/-- `CondoBorda(profile, m)` -/
def condoBordaRun (p : Profile) (m : Nat) (pri : List Cand) : Outcome States :=
  if !rankingValid p then .raised .typeError
  else do
    let sc0 ← bordaScores p
    let st0 := initialState p.cands (some sc0)
    let r ← electFromRanking pri (dominatingTiers p) m (some p) (some .borda)
    let p' := removeCand r.elected.flatten p
    let sc1 ← bordaScores p'
    pure [st0, { round := 1, remaining := r.remaining, elected := r.elected, eliminated := [],
                 tiebreaks := (match r.tiebreak with | some t => [t] | none => []), scores := sc1 }]

/-! ### composites -/

/-- first stage shared by TopTwo and Alaska: Plurality for `k` finalists; the finalists are
reported as *remaining*, the others as *eliminated* -/
def finalistStage (p : Profile) (k : Nat) (tb : Option TB) (pri : List Cand) :
    Outcome (RoundState × RoundState × Profile) := do
  let sc0 ← firstPlaceVotes p
  let st0 := initialState p.cands (some sc0)
  let pl ← pluralityRun p k tb pri
  match pl with
  | [_, s1] =>
    let p' := removeCand s1.remaining.flatten p
    let sc1 ← firstPlaceVotes p'
    pure (st0, { round := 1, remaining := s1.elected, elected := [], eliminated := s1.remaining,
                 tiebreaks := s1.tiebreaks, scores := sc1 }, p')
  | _ => .raised .other

/-- `TopTwo(profile, tiebreak)`; `pri r` is the oracle for round `r` -/
def topTwoRun (p : Profile) (tb : Option TB) (pri : Nat → List Cand) : Outcome States :=
  if !rankingValid p then .raised .typeError
  else do
    let (st0, st1, p1) ← finalistStage p 2 tb (pri 1)
    let pl ← pluralityRun p1 1 tb (pri 2)
    match pl with
    | [_, s] => pure [st0, st1, { s with round := 2 }]
    | _ => .raised .other

/-- `Alaska(profile, m_1, m_2, transfer, quota, simultaneous, tiebreak)` -/
def alaskaRun (p : Profile) (m1 m2 : Int) (cfg : STVCfg) (ω : STVOracle) (quotaOk : Bool := true) :
    Outcome States :=
  if m1 ≤ 0 || m2 ≤ 0 || m1 < m2 then .raised .valueError
  else if !rankingValid p then .raised .typeError
  else do
    let (st0, st1, p1) ← finalistStage p m1.toNat cfg.tiebreak (ω.pri 1)
    let ω' : STVOracle := { pri := fun r => ω.pri (r + 1), sample := fun r => ω.sample (r + 1) }
    let res ← stvRun { cfg with m := m2.toNat } p1 ω' quotaOk
    pure (st0 :: st1 :: (res.states.drop 1).map (fun s => { s with round := s.round + 1 }))

/-- `IRV(profile, quota, tiebreak)` = `STV` with one seat and the default transfer / mode -/
def irvRun (p : Profile) (quota : Quota) (tb : Option TB) (ω : STVOracle) (quotaOk : Bool := true) :
    Outcome STVResult :=
  stvRun { m := 1, quota := quota, simultaneous := true, tiebreak := tb, transfer := .fractional } p ω quotaOk

/-- `SNTV(profile, m, tiebreak)` -/
def sntvRun (p : Profile) (m : Nat) (tb : Option TB) (pri : List Cand) : Outcome States :=
  pluralityRun p m tb pri

/-- `SequentialRCV(profile, m, quota, simultaneous, tiebreak)`: STV whose transfer passes the
winner's ballots on at full weight -/
def seqRCVRun (cfg : STVCfg) (p : Profile) (ω : STVOracle) (quotaOk : Bool := true) : Outcome STVResult :=
  stvRun { cfg with transfer := .full } p ω quotaOk

/-! ### randomised rules -/

/-- Per-round oracle of the dictator rules: the ballot drawn by `random.choices` (its ranking), the
tie-breaking priority, the uniform draw and the candidate drawn by `numpy.random.choice`. -/
structure RDOracle where
  pick : Nat → Ranking := fun _ => []
  pri : Nat → List Cand := fun _ => []
  u : Nat → Rat := fun _ => 0
  sq : Nat → Cand := fun _ => 0

/-- the "random ballot, its first place" branch shared by both dictator rules -/
def dictatorPick (p : Profile) (pick : Ranking) (pri : List Cand) :
    Outcome (Cand × List (List Cand × Ranking)) :=
  if p.ballots.isEmpty then .raised .indexError          -- `random.choices([], …)`
  else if !(p.ballots.any (fun b => b.ranking = pick && decide (0 < b.weight))) then .oracleMismatch
  else match pick with
    | [] => .oracleMismatch
    | first :: _ =>
      if first.length > 1 then do
        let t ← tiebreakSet pri first none .random
        match t with
        | [c] :: _ => pure (c, [(first, t)])
        | _ => .oracleMismatch
      else match first with
        | [c] => pure (c, [])
        | _ => .raised .indexError

def rdLoop (m : Nat) (ω : RDOracle) :
    Nat → Profile → Nat → Nat → List RoundState → Outcome States
  | 0, _, n, _, acc => if n ≥ m then .ok acc.reverse else .outOfFuel
  | fuel + 1, p, n, rnd, acc =>
    if n ≥ m then .ok acc.reverse
    else do
      let (w, tbs) ← dictatorPick p (ω.pick rnd) (ω.pri rnd)
      let p' := removeCand [w] p
      let sc ← firstPlaceVotes p'
      rdLoop m ω fuel p' (n + 1) (rnd + 1)
        ({ round := rnd, remaining := scoreToRanking sc, elected := [[w]], eliminated := [],
           tiebreaks := tbs, scores := sc } :: acc)

/-- `RandomDictator(profile, m)` -/
def randomDictatorRun (p : Profile) (m : Int) (ω : RDOracle) : Outcome States :=
  if m ≤ 0 || m > p.cands.length then .raised .valueError
  else if !rankingValid p then .raised .typeError
  else do
    let sc0 ← firstPlaceVotes p
    let st0 := initialState p.cands (some sc0)
    rdLoop m.toNat ω (m.toNat + 1) p 0 1 [st0]

/-- one step of `BoostedRandomDictator` (after repair F-C01-e: `tiebreaks = {}` when a single
candidate remains). `scores` are the previous round's recorded first-place votes. -/
def boostedPick (p : Profile) (scores : List (Cand × Rat)) (ω : RDOracle) (rnd : Nat) :
    Outcome (Cand × List (List Cand × Ranking)) :=
  match p.cands with
  | [c] => pure (c, [])
  | cands =>
    if ω.u rnd ≤ 1 / ((cands.length : Rat) - 1) then
      -- proportional to squares
      if scores.all (fun cs => cs.2 = 0) then .raised .valueError   -- NaN probabilities
      else if scores.any (fun cs => cs.1 = ω.sq rnd && cs.2 ≠ 0) then pure (ω.sq rnd, [])
      else .oracleMismatch
    else dictatorPick p (ω.pick rnd) (ω.pri rnd)

def brdLoop (m : Nat) (ω : RDOracle) :
    Nat → Profile → List (Cand × Rat) → Nat → Nat → List RoundState → Outcome States
  | 0, _, _, n, _, acc => if n ≥ m then .ok acc.reverse else .outOfFuel
  | fuel + 1, p, scores, n, rnd, acc =>
    if n ≥ m then .ok acc.reverse
    else do
      let (w, tbs) ← boostedPick p scores ω rnd
      let p' := removeCand [w] p
      let sc ← firstPlaceVotes p'
      brdLoop m ω fuel p' sc (n + 1) (rnd + 1)
        ({ round := rnd, remaining := scoreToRanking sc, elected := [[w]], eliminated := [],
           tiebreaks := tbs, scores := sc } :: acc)

/-- `BoostedRandomDictator(profile, m)` -/
def boostedRun (p : Profile) (m : Int) (ω : RDOracle) : Outcome States :=
  if m ≤ 0 || m > p.cands.length then .raised .valueError
  else if !rankingValid p then .raised .typeError
  else do
    let sc0 ← firstPlaceVotes p
    let st0 := initialState p.cands (some sc0)
    brdLoop m.toNat ω (m.toNat + 1) p sc0 0 1 [st0]

end VK
