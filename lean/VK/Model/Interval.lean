/-
  VK.Model.Interval — mirrors `pref_interval.py` and the closed-form probability tables of
  `ballot_generator.py` (`name_BradleyTerry._BT_pdf`, `slate_BradleyTerry._compute_ballot_type_dist`)
  over exact rationals. The harness feeds the exact binary value of every float and compares the
  implementation's float tables with relative tolerance 1e-9.
-/
import VK.Model.Utils
namespace VK

structure Interval where
  interval : List (Cand × Rat)     -- candidates with positive support, normalised
  zeros : List Cand                -- candidates with zero support
  deriving Repr, DecidableEq

/-- `PreferenceInterval(interval)`: zero-support candidates are set aside, the rest is rescaled to
sum to one (`ZeroDivisionError` when nothing is left). Entries with negative support are silently
dropped by the code (`if s > 0`) without being recorded anywhere. -/
def mkInterval (supports : List (Cand × Rat)) : Outcome Interval :=
  let pos := supports.filter (fun cs => decide (0 < cs.2))
  let total := rsum (pos.map (·.2))
  if total = 0 then .raised .zeroDiv
  else .ok { interval := pos.map (fun cs => (cs.1, cs.2 / total)),
             zeros := (supports.filter (fun cs => cs.2 = 0)).map (·.1) }

/-- `combine_preference_intervals` after its checks: every interval is scaled by its proportion,
the result is passed through the constructor again, and all zero-support candidates are carried -/
def combineIntervals (ivs : List Interval) (props : List Rat) : Outcome Interval := do
  let scaled := (ivs.zip props).flatMap (fun ip => ip.1.interval.map (fun cs => (cs.1, cs.2 * ip.2)))
  let r ← mkInterval scaled
  pure { r with zeros := r.zeros ++ (ivs.flatMap (·.zeros)).filter (fun c => !r.zeros.contains c) }

/-- `_make_pow`: Π_i x_i^(m-1-i) -/
def powProd : List Rat → Rat
  | [] => 1
  | x :: xs => rpowNat x xs.length * powProd xs
where rpowNat (x : Rat) : Nat → Rat
  | 0 => 1
  | n + 1 => x * rpowNat x n

/-- `_BT_pdf`: table over all orders of the supported candidates, normalised -/
def btPdf (x : List (Cand × Rat)) : List (List Cand × Rat) :=
  let ps := perms (x.map (·.1))
  let w := fun (r : List Cand) => powProd (r.map (lookupScore x))
  let Z := rsum (ps.map w)
  ps.map (fun r => (r, w r / Z))

/-- all distinct sequences with `a` copies of `true` (own bloc) and `b` copies of `false` -/
def slateTypes : Nat → Nat → List (List Bool)
  | 0, 0 => [[]]
  | a + 1, 0 => (slateTypes a 0).map (true :: ·)
  | 0, b + 1 => (slateTypes 0 b).map (false :: ·)
  | a + 1, b + 1 => (slateTypes a (b + 1)).map (true :: ·) ++ (slateTypes (a + 1) b).map (false :: ·)

/-- number of (own above other) pairs -/
def successes : List Bool → Nat
  | [] => 0
  | true :: rest => (rest.filter (· = false)).length + successes rest
  | false :: rest => successes rest

/-- `_compute_ballot_type_dist`: cohesion^success · (1-cohesion)^(total-success), normalised -/
def slateBtPdf (a b : Nat) (c : Rat) : List (List Bool × Rat) :=
  let ts := slateTypes a b
  let w := fun (t : List Bool) => powProd.rpowNat c (successes t) * powProd.rpowNat (1 - c) (a * b - successes t)
  let Z := rsum (ts.map w)
  ts.map (fun t => (t, w t / Z))

end VK
