/-
  VK.Model.Validate — argument validators that are not part of a rule's run:
  `BallotGenerator.__init__`, `combine_preference_intervals`, PluralityVeto's constructor checks,
  `random_transfer`'s weight check. (The rules' own validators live with the rules.)
-/
import VK.Model.Rules
namespace VK

/-- What `BallotGenerator.__init__` looks at. Bloc names are indices; `*Sum8` are the values of
`round(sum(…), 8)` computed by Python on the floats and handed over exactly. -/
structure GenArgs where
  hasCandidates : Bool
  hasSlates : Bool
  hasIntervals : Bool
  hasCohesion : Bool
  hasProps : Bool
  propSum8 : Rat
  propBlocs : List Nat
  intervalBlocs : List Nat
  cohesionBlocs : List Nat
  cohesionSums8 : List Rat
  deriving Repr, DecidableEq

/-- `BallotGenerator.__init__`: every failure is a ValueError -/
def genInit (a : GenArgs) : Outcome Unit :=
  if !a.hasCandidates && !a.hasSlates then .raised .valueError
  else if a.hasIntervals || a.hasCohesion || a.hasProps then
    if !(a.hasIntervals && a.hasCohesion && a.hasProps) then .raised .valueError
    else if a.propSum8 ≠ 1 then .raised .valueError
    else if a.propBlocs ≠ a.intervalBlocs then .raised .valueError
    else if a.propBlocs ≠ a.cohesionBlocs then .raised .valueError
    else if a.intervalBlocs ≠ a.cohesionBlocs then .raised .valueError
    else if a.cohesionSums8.any (fun s => s ≠ 1) then .raised .valueError
    else .ok ()
  else .ok ()

/-- `combine_preference_intervals`: candidate sets pairwise disjoint, proportions sum to one -/
def combineCheck (candSets : List (List Cand)) (propSum8 : Rat) : Outcome Unit :=
  if (sortCands candSets.flatten).length ≠ (candSets.map (fun s => (sortCands s).length)).foldl (· + ·) 0 then
    .raised .valueError
  else if propSum8 ≠ 1 then .raised .valueError
  else .ok ()

/-- PluralityVeto's constructor checks, in order: rankings present (TypeError), integer weights
(TypeError), `m` in range (ValueError), ties without a tiebreak (AttributeError) -/
def pluralityVetoValidate (p : Profile) (m : Int) (tb : Option TB) : Outcome Unit :=
  if p.ballots.any (fun b => b.ranking.isEmpty) then .raised .typeError
  else match p.ballots.find? (fun b => b.ranking.isEmpty || b.weight.den ≠ 1) with
    | some _ => .raised .typeError
    | none =>
      if m ≤ 0 || m > p.cands.length then .raised .valueError
      else if tb.isNone && p.ballots.any (fun b => b.ranking.any (fun s => s.length > 1)) then
        .raised .attrError
      else .ok ()

end VK
