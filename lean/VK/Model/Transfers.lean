/-
  VK.Model.Transfers — mirrors `elections/transfers.py` on arbitrary ballot lists
  (duplicates, exhausted ballots, ballots not led by the winner).
-/
import VK.Model.Utils
namespace VK

/-- remove the winner from every position; emptied positions disappear -/
def removeWinner (w : Cand) (r : Ranking) : Ranking :=
  (r.map (fun s => s.filter (fun c => c != w))).filter (fun s => !s.isEmpty)

def ledBy (w : Cand) (b : Ballot) : Bool := b.ranking.head? == some [w]

/-- `fractional_transfer(winner, fpv, ballots, threshold)` -/
def fractionalTransfer (w : Cand) (fpv : Rat) (bs : List Ballot) (q : Int) : Outcome (List Ballot) :=
  if fpv = 0 then .raised .zeroDiv
  else if bs.any (fun b => b.ranking.isEmpty) then .raised .typeError
  else
    let tv := (fpv - q) / fpv
    .ok (condense ((bs.map (fun b =>
      ({ ranking := removeWinner w b.ranking,
         weight := if ledBy w b then b.weight * tv else b.weight, scores := [] } : Ballot))).filter
      (fun b => !b.ranking.isEmpty && decide (0 < b.weight))))

/-- units of the winner's ballots per continuing ranking -/
def classUnits (w : Cand) (bs : List Ballot) (k : Ranking) : Nat :=
  ((bs.filter (fun b => ledBy w b && removeWinner w b.ranking == k)).map (fun b => b.weight.floor.toNat)).foldl (· + ·) 0

/-- `random_transfer(winner, fpv, ballots, threshold)`. `keep` is the oracle: how many unit ballots
of each continuing ranking `random.sample` returned. -/
def randomTransfer (w : Cand) (fpv : Rat) (bs : List Ballot) (q : Int) (keep : List (Ranking × Nat)) :
    Outcome (List Ballot) :=
  if bs.any (fun b => b.weight.den ≠ 1) || bs.any (fun b => b.ranking.isEmpty) then .raised .typeError
  else
    let led := bs.filter (ledBy w)
    let population : Nat := ((led.filter (fun b => !(removeWinner w b.ranking).isEmpty)).map
      (fun b => b.weight.floor.toNat)).foldl (· + ·) 0
    let k : Int := fpv.floor - q
    if k < 0 || k > population then .raised .valueError
    else
      let total : Nat := (keep.map (·.2)).foldl (· + ·) 0
      -- the oracle lists distinct non-empty continuing rankings, none above its class size
      if (total : Int) ≠ k || keep.any (fun kn => kn.1.isEmpty || kn.2 > classUnits w bs kn.1)
          || (keep.map (·.1)).eraseDups.length ≠ keep.length then .oracleMismatch
      else
        let others := (bs.filter (fun b => !ledBy w b)).map (fun b =>
          ({ ranking := removeWinner w b.ranking, weight := b.weight, scores := [] } : Ballot))
        let kept := keep.map (fun kn => ({ ranking := kn.1, weight := (kn.2 : Rat), scores := [] } : Ballot))
        .ok (condense ((others ++ kept).filter (fun b => !b.ranking.isEmpty && decide (0 < b.weight))))

end VK
