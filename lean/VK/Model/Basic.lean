/-
  VK.Model.Basic — data model mirroring `votekit/ballot.py` and `votekit/pref_profile.py`.

  Conventions (DESIGN.md §2.1):
  * candidates are `Nat` indices into the declared candidate tuple; a candidate *set* is a list in
    increasing index order (the harness sorts Python sets the same way);
  * `ranking = []` plays the role of Python's `None` / empty tuple (both are falsy in the code);
    `scores = []` the role of `None` (pydantic validator turns `{}` and all-zero dicts into `None`);
  * weights and scores are exact rationals (core `Rat`);
  * exceptions are values (`Outcome`); randomness is an explicit oracle argument.
  No Mathlib import: this file is also linked into the compiled driver.
-/
namespace VK

abbrev Cand := Nat

/-- Python exception classes as observed by the harness (`isinstance` order: Type, Value, Index,
ZeroDivision, Key, Attribute, anything else). -/
inductive Exn where
  | typeError | valueError | indexError | zeroDiv | keyError | attrError | unbound | other
  | emptyData | dataError | fileNotFound
  deriving DecidableEq, Repr, Inhabited

/-- Result of a model entry point. Nothing is totalised silently. -/
inductive Outcome (α : Type) where
  | ok (a : α)
  | raised (e : Exn)
  | oracleMismatch
  | outOfFuel
  deriving Repr, DecidableEq

namespace Outcome
@[inline] def bind {α β} (x : Outcome α) (f : α → Outcome β) : Outcome β :=
  match x with
  | ok a => f a
  | raised e => raised e
  | oracleMismatch => oracleMismatch
  | outOfFuel => outOfFuel

instance : Monad Outcome where
  pure := ok
  bind := bind

@[simp] theorem bind_ok {α β} (a : α) (f : α → Outcome β) : (ok a >>= f) = f a := rfl
@[simp] theorem bind_raised {α β} (e : Exn) (f : α → Outcome β) :
    ((raised e : Outcome α) >>= f) = raised e := rfl
@[simp] theorem bind_mismatch {α β} (f : α → Outcome β) :
    ((oracleMismatch : Outcome α) >>= f) = oracleMismatch := rfl
@[simp] theorem bind_fuel {α β} (f : α → Outcome β) :
    ((outOfFuel : Outcome α) >>= f) = outOfFuel := rfl
@[simp] theorem pure_eq {α} (a : α) : (pure a : Outcome α) = ok a := rfl

def isOk {α} : Outcome α → Bool
  | ok _ => true
  | _ => false
end Outcome

/-- A ranking: list of positions, each position a (sorted) list of tied candidates. -/
abbrev Ranking := List (List Cand)
/-- Score dictionary of a ballot: candidate ↦ non-zero score, sorted by candidate. -/
abbrev Scores := List (Cand × Rat)

structure Ballot where
  ranking : Ranking := []
  weight : Rat := 1
  scores : Scores := []
  deriving DecidableEq, Repr, Inhabited

/-- What `condense_ballots` groups by. -/
abbrev Content := Ranking × Scores

def Ballot.content (b : Ballot) : Content := (b.ranking, b.scores)

structure Profile where
  ballots : List Ballot := []
  cands : List Cand := []
  deriving DecidableEq, Repr, Inhabited

/-- Sum of a list of rationals (kept as a plain structural recursion for proofs). -/
def rsum : List Rat → Rat
  | [] => 0
  | x :: xs => x + rsum xs

/-- Total weight carried by ballots of content `k`. This is the observable a profile *is*. -/
def wt (bs : List Ballot) (k : Content) : Rat :=
  rsum ((bs.filter (fun b => b.content = k)).map (·.weight))

def totalWeight (bs : List Ballot) : Rat := rsum (bs.map (·.weight))

/-- Insert weight `w` for content `k` into an accumulator that keeps first-seen order
(Python dict insertion order). -/
def accAdd (k : Content) (w : Rat) : List (Content × Rat) → List (Content × Rat)
  | [] => [(k, w)]
  | (k', w') :: rest => if k' = k then (k', w' + w) :: rest else (k', w') :: accAdd k w rest

def accumulate (bs : List Ballot) : List (Content × Rat) :=
  bs.foldl (fun acc b => accAdd b.content b.weight acc) []

/-- `PreferenceProfile.condense_ballots` on the ballot list. -/
def condense (bs : List Ballot) : List Ballot :=
  (accumulate bs).map (fun kw => { ranking := kw.1.1, scores := kw.1.2, weight := kw.2 })

def Profile.condense (p : Profile) : Profile := { p with ballots := VK.condense p.ballots }

def dedup (l : List Cand) : List Cand := l.eraseDups

/-- insertion into a sorted duplicate-free list -/
def insertSorted (c : Cand) : List Cand → List Cand
  | [] => [c]
  | x :: xs => if c < x then c :: x :: xs else if c = x then x :: xs else x :: insertSorted c xs

def sortCands (l : List Cand) : List Cand := l.foldr insertSorted []

/-- candidates appearing on a ballot (ranking and score keys) -/
def Ballot.cands (b : Ballot) : List Cand := b.ranking.flatten ++ b.scores.map (·.1)

/-- `candidates_cast`: candidates on ballots with positive weight, as a sorted set. -/
def candsCast (bs : List Ballot) : List Cand :=
  sortCands ((bs.filter (fun b => decide (0 < b.weight))).flatMap Ballot.cands)

/-- Profile constructor semantics: duplicate candidate list is rejected; an empty candidate list
is replaced by the cast candidates. -/
def hasDup : List Cand → Bool
  | [] => false
  | x :: xs => xs.contains x || hasDup xs

def mkProfile (bs : List Ballot) (cands : List Cand) : Outcome Profile :=
  if hasDup cands then .raised .valueError
  else if cands.isEmpty then .ok { ballots := bs, cands := candsCast bs }
  else .ok { ballots := bs, cands := cands }

def Profile.numBallots (p : Profile) : Nat := p.ballots.length
def Profile.total (p : Profile) : Rat := totalWeight p.ballots

/-- contents occurring in a ballot list (first-seen order, no duplicates) -/
def contents (bs : List Ballot) : List Content := (accumulate bs).map (·.1)

/-- `PreferenceProfile.__eq__` (content-keyed, after repair F-C11): the condensed weight maps
agree in both directions. -/
def profEq (p q : Profile) : Bool :=
  (contents p.ballots).all (fun k => decide (wt p.ballots k = wt q.ballots k)) &&
  (contents q.ballots).all (fun k => decide (wt p.ballots k = wt q.ballots k))

/-- `PreferenceProfile.__add__`: concatenated ballot lists, candidates recomputed. -/
def profAdd (p q : Profile) : Profile :=
  { ballots := p.ballots ++ q.ballots, cands := candsCast (p.ballots ++ q.ballots) }

end VK
