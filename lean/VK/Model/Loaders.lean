/-
  VK.Model.Loaders — mirrors `cvr_loaders.py` at the level of parsed tables.
  `load_csv`: a table is a list of rows of optional cells (`none` = empty cell); cells are names
  encoded as indices by the harness. `load_scottish`: rows of raw strings as `csv.reader` yields them.
-/
import VK.Model.Basic
namespace VK

abbrev Cell := Option Nat

structure CsvCfg where
  rankCols : List Nat := []     -- empty = every column that is not the id / weight column
  idCol : Option Nat := none
  weightCol : Option Nat := none
  deriving Repr, DecidableEq

/-- one loaded ballot: the pattern of the selected rank columns (blank = `none`), its weight and the
voter ids of the rows having it -/
structure CsvBallot where
  pattern : List Cell
  weight : Rat
  voters : List Nat
  deriving Repr, DecidableEq

def cellAt (row : List Cell) (i : Nat) : Cell := (row[i]?).join

def selectCols (cfg : CsvCfg) (ncols : Nat) : List Nat :=
  if cfg.rankCols.isEmpty then
    (List.range ncols).filter (fun i => some i ≠ cfg.idCol && some i ≠ cfg.weightCol)
  else cfg.rankCols

def patternOf (cols : List Nat) (row : List Cell) : List Cell := cols.map (cellAt row)

/-- distinct patterns in first-seen order -/
def distinctPatterns : List (List Cell) → List (List Cell)
  | [] => []
  | p :: ps => p :: (distinctPatterns ps).filter (· ≠ p)

/-- `load_csv` on a parsed table. `weights` are the numeric values of the weight column, `ids` the
(already encoded) ids, both aligned with `rows`. -/
def loadTable (cfg : CsvCfg) (ncols : Nat) (rows : List (List Cell)) (ids : List Cell)
    (weights : List Rat) : Outcome (List CsvBallot) :=
  if rows.isEmpty then .raised .emptyData
  else if cfg.idCol.isSome && ids.any (·.isNone) then .raised .valueError
  else if cfg.idCol.isSome && hasDup (ids.filterMap id) then .raised .dataError
  else
    let cols := selectCols cfg ncols
    let tagged := (rows.zip (ids.zip weights))
    let pats := distinctPatterns (rows.map (patternOf cols))
    .ok (pats.map (fun p =>
      let grp := tagged.filter (fun t => patternOf cols t.1 = p)
      { pattern := p,
        weight := if cfg.weightCol.isSome then rsum (grp.map (·.2.2)) else (grp.length : Rat),
        voters := if cfg.idCol.isSome then grp.filterMap (·.2.1) else [] }))

/-! ### Scottish format -/

def isDigits (s : String) : Bool := !s.isEmpty && s.all Char.isDigit

structure ScotResult where
  seats : Nat
  ward : String
  cands : List String
  parties : List String
  ballots : List (List Nat × Nat)    -- candidate numbers (1-based) and multiplicity, uncondensed
  deriving Repr, DecidableEq

def hasSubstr (s pat : String) : Bool := (s.splitOn pat).length > 1

/-- `load_scottish` after the file-system checks: `rows` are the csv rows. -/
def parseScottish (rows : List (List String)) : Outcome ScotResult :=
  let data := (rows.map (fun r => r.filter (· ≠ ""))).filter (fun r => !r.isEmpty)
  match data with
  | [] => .raised .indexError
  | first :: _ =>
    if first.length ≠ 2 then .raised .dataError
    else match first with
      | [a, b] =>
        if !isDigits a || !isDigits b then .raised .other     -- non-numeric metadata: outside the documented cases
        else
          let candNum := a.toNat!
          let seats := b.toNat!
          let nCandRows := (data.filter (fun r => match r.head? with
            | some h => hasSubstr h "Candidate"
            | none => false)).length
          if nCandRows ≠ candNum then .raised .dataError
          else if data.length < candNum + 2 then .raised .other
          else
            let candLines := (data.drop (data.length - (candNum + 1))).dropLast
            let ward := match data.getLast? with
              | some (w :: _) => w
              | _ => ""
            if candLines.any (fun l => match l.head? with
                | some h => isDigits h || !hasSubstr h "Candidate"
                | none => true) then .raised .dataError
            else if candLines.any (fun l => l.length < 3) then .raised .indexError
            else
              let cands := candLines.map (fun l => l.getD 1 "")
              let parties := candLines.map (fun l => l.getD 2 "")
              let ballotLines := (data.drop 1).take (data.length - (candNum + 1) - 1)
              if ballotLines.any (fun l => l.any (fun x => !isDigits x)) then .raised .other
              else if ballotLines.any (fun l => (l.drop 1).any (fun x => x.toNat! = 0 || x.toNat! > candNum)) then
                .raised .keyError
              else .ok { seats := seats, ward := ward, cands := cands, parties := parties,
                         ballots := ballotLines.map (fun l => ((l.drop 1).map String.toNat!, (l.headD "0").toNat!)) }
      | _ => .raised .dataError

end VK
