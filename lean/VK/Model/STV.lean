/-
  VK.Model.STV — mirrors `elections/election_types/ranking/stv.py` and `elections/transfers.py`.

  The count state is the *textbook pointwise state*: every original ballot keeps its full ranking
  and a current weight, and counts for its first hopeful candidate. The code instead physically
  deletes names and merges equal ballots; `currentProfile` rebuilds what the code holds and the
  correspondence check compares it round by round (DESIGN.md §3).
-/
import VK.Model.Election
namespace VK

inductive Quota where
  | droop | hare
  deriving DecidableEq, Repr, Inhabited

inductive Transfer where
  | fractional   -- `fractional_transfer`
  | random       -- `random_transfer`
  | full         -- SequentialRCV: `remove_cand(winner, ballots)`, full weight
  deriving DecidableEq, Repr, Inhabited

structure STVCfg where
  m : Nat := 1
  quota : Quota := .droop
  simultaneous : Bool := true
  tiebreak : Option TB := none
  transfer : Transfer := .fractional
  deriving DecidableEq, Repr, Inhabited

/-- Everything random an STV run may consume, indexed by the round being computed (1-based).
`pri r` orders any tied set met in round `r`; `sample r c` lists, for winner `c`, how many unit
ballots of each continuing ranking the random transfer kept. -/
structure STVOracle where
  pri : Nat → List Cand := fun _ => []
  sample : Nat → Cand → List (List Cand × Nat) := fun _ _ => []

/-- `get_threshold`: `int(N/(m+1) + 1)` / `int(N/m)`; `int()` is floor on the non-negative totals
that valid profiles have. `m ≥ 1` is checked by the constructor before this is called. -/
def threshold (quota : Quota) (m : Nat) (N : Rat) : Int :=
  match quota with
  | .droop => (N / ((m : Rat) + 1) + 1).floor
  | .hare => (N / (m : Rat)).floor

/-- pointwise ballot: original (untied) ranking and current weight -/
abbrev PBallot := List Cand × Rat

structure CState where
  bs : List PBallot
  hopeful : List Cand
  nElected : Nat
  deriving Repr, DecidableEq

def topOf (hopeful : List Cand) (r : List Cand) : Option Cand := r.find? (fun c => hopeful.contains c)

def tally (bs : List PBallot) (hopeful : List Cand) (c : Cand) : Rat :=
  rsum ((bs.filter (fun b => topOf hopeful b.1 = some c)).map (·.2))

def tallies (bs : List PBallot) (hopeful : List Cand) : List (Cand × Rat) :=
  hopeful.map (fun c => (c, tally bs hopeful c))

/-- the profile the implementation holds at this point (before condensing) -/
def currentBallots (bs : List PBallot) (hopeful : List Cand) : List Ballot :=
  (bs.map (fun b => ({ ranking := (b.1.filter (fun c => hopeful.contains c)).map (fun c => [c]),
                       weight := b.2, scores := [] } : Ballot))).filter
    (fun b => !b.ranking.isEmpty && decide (0 < b.weight))

def currentProfile (S : CState) : Profile :=
  { ballots := condense (currentBallots S.bs S.hopeful), cands := S.hopeful }

/-- continuing ranking of a ballot led by `w` once `w` alone is removed -/
def contRanking (hopeful : List Cand) (w : Cand) (r : List Cand) : List Cand :=
  r.filter (fun c => hopeful.contains c && c != w)

def isIntRat (x : Rat) : Bool := x.den = 1

/-- greedy distribution of the kept units of one class over the ballots of that class -/
def takeUnits (need : List (List Cand × Nat)) (k : List Cand) (avail : Nat) :
    Nat × List (List Cand × Nat) :=
  match need with
  | [] => (0, [])
  | (k', n) :: rest =>
    if k' = k then (min n avail, (k', n - min n avail) :: rest)
    else let (g, rest') := takeUnits rest k avail; (g, (k', n) :: rest')

/-- random transfer for winner `w`: walk the ballots, give each winner-led transferable ballot as
many of its class's kept units as it can hold. Returns new ballots and the unmet need. -/
def randomAssign (hopeful : List Cand) (w : Cand) :
    List PBallot → List (List Cand × Nat) → List PBallot × List (List Cand × Nat)
  | [], need => ([], need)
  | b :: rest, need =>
    if topOf hopeful b.1 = some w then
      let k := contRanking hopeful w b.1
      if k.isEmpty then
        let (rest', need') := randomAssign hopeful w rest need
        ((b.1, 0) :: rest', need')
      else
        let (g, need1) := takeUnits need k b.2.floor.toNat
        let (rest', need') := randomAssign hopeful w rest need1
        ((b.1, (g : Rat)) :: rest', need')
    else
      let (rest', need') := randomAssign hopeful w rest need
      (b :: rest', need')

/-- apply the configured transfer for one winner `w` with tally `t` against threshold `q` -/
def applyTransfer (cfg : STVCfg) (hopeful : List Cand) (q : Int) (sample : List (List Cand × Nat))
    (bs : List PBallot) (w : Cand) : Outcome (List PBallot) :=
  let t := tally bs hopeful w
  match cfg.transfer with
  | .full => .ok bs
  | .fractional =>
    if t = 0 then .raised .zeroDiv
    else .ok (bs.map (fun b => if topOf hopeful b.1 = some w then (b.1, b.2 * ((t - q) / t)) else b))
  | .random =>
    let led := bs.filter (fun b => topOf hopeful b.1 = some w)
    if led.any (fun b => !isIntRat b.2) then .raised .typeError
    else
      let transferable := rsum ((led.filter (fun b => !(contRanking hopeful w b.1).isEmpty)).map (·.2))
      let k : Int := t.floor - q
      if k < 0 || (k : Rat) > transferable then .raised .valueError   -- random.sample size check
      else
        -- the oracle must name only continuing rankings of this winner, each at most once,
        -- and exactly `k` units in total
        let total : Nat := (sample.map (·.2)).foldl (· + ·) 0
        if (total : Int) ≠ k || sample.any (fun kn => kn.1.isEmpty) then .oracleMismatch
        else
          let (bs', need') := randomAssign hopeful w bs sample
          if need'.any (fun kn => kn.2 ≠ 0) then .oracleMismatch else .ok bs'

def applyTransfers (cfg : STVCfg) (hopeful : List Cand) (q : Int)
    (sample : Cand → List (List Cand × Nat)) :
    List Cand → List PBallot → Outcome (List PBallot)
  | [], bs => .ok bs
  | w :: ws, bs => do
    let bs' ← applyTransfer cfg hopeful q (sample w) bs w
    applyTransfers cfg hopeful q sample ws bs'

/-- who is elected in a round in which somebody reached the threshold: all candidates at or above
it (simultaneous), or the single top candidate after the requested tiebreak (one by one) -/
def electChoice (cfg : STVCfg) (q : Int) (ω : STVOracle) (rnd : Nat) (S : CState) (prev : RoundState) :
    Outcome (Ranking × List (List Cand × Ranking)) :=
  if cfg.simultaneous then
    pure (prev.remaining.takeWhile (fun g =>
      match g with
      | [] => false
      | c :: _ => decide ((q : Rat) ≤ lookupScore prev.scores c)), [])
  else do
    let r ← electFromRanking (ω.pri rnd) prev.remaining 1 (some (currentProfile S)) cfg.tiebreak
    pure (r.elected, match r.tiebreak with | some t => [t] | none => [])

/-- who is eliminated: the single member of the lowest group, or — after the first-place tiebreak on
the *initial* profile — the last of the resolved order -/
def loserChoice (init : Profile) (ω : STVOracle) (rnd : Nat) (lowest : List Cand) :
    Outcome (Cand × List (List Cand × Ranking)) :=
  if lowest.length > 1 then do
    let t ← tiebreakSet (ω.pri rnd) lowest (some init) .firstPlace
    match t.getLast? with
    | some [c] => pure (c, [(lowest, t)])
    | _ => .raised .indexError
  else match lowest with
    | [c] => pure (c, [])
    | _ => .raised .indexError

/-- one `_run_step`: returns the new count state and the recorded round -/
def stvStep (cfg : STVCfg) (init : Profile) (q : Int) (ω : STVOracle) (rnd : Nat)
    (S : CState) (prev : RoundState) : Outcome (CState × RoundState) :=
  let above := prev.scores.filter (fun cs => decide ((q : Rat) ≤ cs.2))
  if !above.isEmpty then do
    -- elect
    let (electedGroups, tbs) ← electChoice cfg q ω rnd S prev
    let winners := electedGroups.flatten
    let bs' ← applyTransfers cfg S.hopeful q (ω.sample rnd) winners S.bs
    let hopeful' := S.hopeful.filter (fun c => !winners.contains c)
    let sc := tallies bs' hopeful'
    pure ({ bs := bs', hopeful := hopeful', nElected := S.nElected + winners.length },
          { round := rnd, remaining := scoreToRanking sc, elected := electedGroups, eliminated := [],
            tiebreaks := tbs, scores := sc })
  else if S.nElected ≤ cfg.m && S.hopeful.length = cfg.m - S.nElected then
    -- all remaining candidates fill the remaining seats; the profile becomes empty
    pure ({ bs := S.bs.map (fun b => (b.1, 0)), hopeful := [], nElected := S.nElected + S.hopeful.length },
          { round := rnd, remaining := [], elected := prev.remaining, eliminated := [],
            tiebreaks := [], scores := [] })
  else
    match prev.remaining.getLast? with
    | none => .raised .indexError            -- `list(frozenset())[0]`
    | some lowest => do
      let (loser, tbs) ← loserChoice init ω rnd lowest
      let hopeful' := S.hopeful.filter (fun c => c != loser)
      let sc := tallies S.bs hopeful'
      pure ({ bs := S.bs, hopeful := hopeful', nElected := S.nElected },
            { round := rnd, remaining := scoreToRanking sc, elected := [], eliminated := [[loser]],
              tiebreaks := tbs, scores := sc })

/-- the `while not _is_finished()` loop, with fuel; `acc` holds the recorded rounds and the count
state reached after each of them (newest first) -/
def stvLoop (cfg : STVCfg) (init : Profile) (q : Int) (ω : STVOracle) :
    Nat → CState → RoundState → List (RoundState × CState) → Outcome (List (RoundState × CState))
  | 0, S, _, acc => if S.nElected = cfg.m then .ok acc.reverse else .outOfFuel
  | fuel + 1, S, prev, acc =>
    if S.nElected = cfg.m then .ok acc.reverse
    else do
      let (S', r) ← stvStep cfg init q ω (prev.round + 1) S prev
      stvLoop cfg init q ω fuel S' r ((r, S') :: acc)

/-- `_stv_validate_profile` -/
def stvValidProfile (p : Profile) : Bool :=
  p.ballots.all (fun b => !b.ranking.isEmpty && b.ranking.all (fun s => s.length ≤ 1))

def stvInitState (p : Profile) : CState :=
  { bs := p.ballots.map (fun b => (b.ranking.flatten, b.weight)), hopeful := p.cands, nElected := 0 }

structure STVResult where
  threshold : Int
  trace : List (RoundState × CState)
  deriving Repr

def STVResult.states (r : STVResult) : States := r.trace.map (·.1)
/-- the profile after round `k` as the count holds it -/
def STVResult.profiles (r : STVResult) : List Profile := r.trace.map (fun x => currentProfile x.2)

/-- `STV(profile, m, transfer, quota, simultaneous, tiebreak)`; `quotaOk = false` models an unknown
quota string (ValueError from `get_threshold`). -/
def stvRun (cfg : STVCfg) (p : Profile) (ω : STVOracle) (quotaOk : Bool := true) : Outcome STVResult :=
  if !stvValidProfile p then .raised .typeError
  else if cfg.m = 0 || cfg.m > p.cands.length then .raised .valueError
  else if !quotaOk then .raised .valueError
  else do
    let q := threshold cfg.quota cfg.m p.total
    let S0 := stvInitState p
    let sc0 ← firstPlaceVotes p
    let st0 := initialState p.cands (some sc0)
    let tr ← stvLoop cfg p q ω (p.cands.length + 2) S0 st0 [(st0, S0)]
    pure { threshold := q, trace := tr }

end VK
