import VK.Model.Basic
import VK.Model.Utils
import VK.Model.Election
import VK.Model.STV
import VK.Model.Pairwise
import VK.Model.Rules
import VK.Model.Codec
